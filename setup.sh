#!/bin/sh
# Build the overlay venv (offline) that carries CrossHair + z3 on top of /venv (which has /repo's deps).
set -e
cd "$(dirname "$0")"
V=.venv
if [ -x "$V/bin/python" ] && "$V/bin/python" -c "import crosshair, z3, google.protobuf, rdflib" >/dev/null 2>&1; then
  exit 0
fi
rm -rf "$V"
/venv/bin/python -m venv "$V"
echo "import site; site.addsitedir('/venv/lib/python3.12/site-packages')" > "$V/lib/python3.12/site-packages/_base.pth"
PIP_NO_INDEX=1 "$V/bin/pip" install -q --no-index --find-links /opt/veriftools/wheels crosshair-tool >/dev/null
"$V/bin/python" -c "import crosshair, z3, google.protobuf, rdflib"
