import json, sys
from vpkg.harness import reject as J
from vpkg.ref import wire
def show(P, cls, pos, big, cut):
    J.P=P
    c=J.CLASSES[cls]
    rows=J.base_rows(P['phys'],datatypes=P['datatypes'],prefixes=P['prefixes'],rdf=P['integ']=='rdflib')
    mut=J.inject(rows,c,pos,big,P['phys'])
    print('CLASS',c,'pos',pos,'big',big,'cut',cut)
    if mut is None: print('n/a'); return
    for r in mut: print('   ',r)
    valid,before=J.ref_prefix(mut)
    print('ref valid',valid,'before',len(before))
    data = wire.delimit([wire.enc_frame([r]) for r in mut]) if cut else wire.delimit([wire.enc_frame(mut)])
    got,raised=J.run_parser(data,P['integ'],P['entry'])
    print('pyjelly raised',repr(raised)); 
    for g in got: print('  GOT',g)
if __name__=='__main__':
    rec=json.load(open(sys.argv[1])); i=rec['inputs']
    show(rec['unit']['params'], i['cls'], i['pos'], i['big'], i['cut'])
