import json, sys
rec=json.load(open(sys.argv[1]))
from vpkg.harness import pipe
from vpkg import pj
from vpkg.terms import norm_item
from vpkg.ref import jelly as R
pipe.P=rec['unit']['params']; P=pipe.P
print(P)
items=pipe.build_items(rec['inputs']['sel'])
for i in items: print('IN ',norm_item(i))
opts=pj.make_options(P['phys'],frame_size=rec['inputs']['fs'],delimited=P['delimited'],names=P['names'],prefixes=P['prefixes'],datatypes=P['datatypes'],generalized=P['integ']=='generic',rdf_star=P['integ']=='generic')
ser = pj.gen_serialize if P['integ']=='generic' else pj.rdf_serialize
data=ser(items,P['phys'],opts,entry=P['entry'])
try:
    ri,ro,dec=R.decode(data)
    for i in ri: print('REF',i)
    print(dec.audit)
except Exception as e: print('REF EXC',repr(e))
par = pj.gen_parse if P['integ']=='generic' else pj.rdf_parse
for i in par(data): print('PJ ',norm_item(i))
from vpkg.ref import wire
frames,_=R.split_stream(data)
for f in frames:
    print('FRAME')
    for r in wire.dec_frame(f)[0]: print('   ',r)
