#!/usr/bin/env python3
"""Regenerate MANIFEST.json from tools/claims.json (kept by hand) — keeps it schema-valid."""
import json, os, sys
D = os.path.dirname(os.path.dirname(os.path.abspath(__file__)))
claims = json.load(open(os.path.join(D, "tools", "claims.json")))
props = [json.loads(l) for l in open(os.path.join(D, "properties.jsonl"))]
checks, na = [], []
for p in props:
    pid = p["id"]
    c = claims.get(pid)
    if not c or c.get("not_applicable"):
        na.append({"property_id": pid, "reason": (c or {}).get("not_applicable", "no check built yet (work in progress)")})
        continue
    checks.append({
        "property_id": pid,
        "quick_cmd": f"./jcheck check {pid} --tier quick",
        "thorough_cmd": f"./jcheck check {pid} --tier thorough",
        "evidence_file": f"evidence/{pid}.json",
        "replay_cmd_template": "./jcheck replay {path}",
        "engine": "crosshair-z3",
        "level_claimed": {"category": "model_checking", "text": c["text"], "design_ref": c.get("design_ref", "DESIGN.md §5 " + pid)},
        "level_note": c["note"],
        "technique": c.get("technique", "solver-based bounded symbolic execution of the real code (CrossHair + z3), counterexamples replayed natively"),
    })
m = {
    "version": 1,
    "setup_cmd": "sh ./setup.sh",
    "hooks": {"guard": "JELLY_RDF_PYJELLY_VERIF", "enable": "no hooks are needed: CrossHair executes /repo's sources directly (PYTHONPATH=/repo)",
              "baseline_off_cmd": "cd /repo && /venv/bin/python -m pytest -ra -q -p no:cacheprovider --timeout=900 --continue-on-collection-errors",
              "source_commits": [], "add_only": True},
    "engines": [{"name": "crosshair-z3", "path": "vpkg/", "serves_properties": [c["property_id"] for c in checks],
                 "kind_free_text": "CrossHair 0.0.110 symbolic execution of /repo's Python functions, z3 5.1 decides branch feasibility; 16 worker processes; native replay of counterexamples"}],
    "checks": checks,
    "not_applicable": na,
    "notes": "See DESIGN.md. Exit codes: 0 held on everything explored, 1 VIOLATION (replayed natively), 3 harness error. Known findings in known_findings.json.",
}
json.dump(m, open(os.path.join(D, "MANIFEST.json"), "w"), indent=1)
import subprocess
try:
    import jsonschema
    jsonschema.validate(m, json.load(open("/root/.vp/MANIFEST.schema.json")))
    print("MANIFEST valid;", len(checks), "checks,", len(na), "not_applicable")
except ImportError:
    print("jsonschema missing; not validated")
