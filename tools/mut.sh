#!/bin/sh
# usage: tools/mut.sh <patchfile|-e 'sed expr' file> -- <jcheck args...>
# Runs a check against a scratch copy of /repo with a mutation applied. Never touches /repo.
set -e
D="$(cd "$(dirname "$0")/.." && pwd)"
S=$(mktemp -d /tmp/vpmut.XXXXXX)
trap 'rm -rf "$S"' EXIT
mkdir -p "$S/repo"
cp -r /repo/pyjelly "$S/repo/pyjelly"
if [ "$1" = "-e" ]; then
  sed -i -e "$2" "$S/repo/$3"; shift 3
else
  (cd "$S/repo" && patch -p1 -s < "$1"); shift 1
fi
[ "$1" = "--" ] && shift
(cd "$S/repo" && diff -ru /repo/pyjelly pyjelly | head -40) || true
VP_REPO="$S/repo" VP_EVIDENCE_DIR="$S/ev" VP_REPLAY_DIR="$S/replays" "$D/jcheck" "$@" || echo "exit code: $?"
