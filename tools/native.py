#!/usr/bin/env python3
"""Run a harness natively: tools/native.py <replay.json>  (prints traceback instead of swallowing)"""
import importlib, json, sys, traceback
rec = json.load(open(sys.argv[1]))
u = rec["unit"]
mod = importlib.import_module(u["module"])
mod.P = dict(u["params"])
print("params", mod.P, "inputs", rec["inputs"])
import vpkg.hutil as h
orig = h.fin
print("result:", getattr(mod, u["fn"])(**rec["inputs"]))
