#!/bin/sh
# tools/run_tier.sh <tier> <log> [ids...] : run checks sequentially, log summary + wall time + exit code
tier=$1; log=$2; shift 2
[ $# -eq 0 ] && set -- C01 C02 C03 C04 C05 C06 C07 C08 C09 C10 C11 C12 C13 C14 C15 C16 C17 C18 C19 C20
cd "$(dirname "$0")/.."
for id in "$@"; do
  t0=$(date +%s)
  out=$(./jcheck check $id --tier $tier 2>&1); rc=$?
  t1=$(date +%s)
  echo "$id $tier rc=$rc wall=$((t1-t0))s :: $(echo "$out" | grep -E 'tier=' | head -1)" >> "$log"
  echo "$out" | grep -E "VIOLATION|HARNESS|unfinished" | head -6 >> "$log"
done
echo ALLDONE >> "$log"
