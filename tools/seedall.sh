#!/bin/sh
# tools/seedall.sh <log> [ids...] : run tools/seedtest.sh on every kept seed under /verif/seeded (default: all)
D="$(cd "$(dirname "$0")/.." && pwd)"
LOG=$1; shift
[ $# -eq 0 ] && set -- $(ls "$D/seeded" | grep '^C')
for id in "$@"; do
  for d in "$D/seeded/$id"/*/; do
    [ -f "$d/patch.diff" ] || continue
    "$D/tools/seedtest.sh" "$d" >> "$LOG" 2>&1
  done
done
echo ALLDONE >> "$LOG"
