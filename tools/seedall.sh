#!/bin/sh
# tools/seedall.sh <log> <ids...> : run seedtest on every seed of the given properties (from /tmp/seedwork)
LOG=$1; shift
for id in "$@"; do
  for d in /tmp/seedwork/$id/${SEEDSUB:-seed_out}/*/; do
    [ -f "$d/patch.diff" ] || continue
    /verif/tools/seedtest.sh "$d" >> "$LOG" 2>&1
  done
done
echo ALLDONE >> "$LOG"
