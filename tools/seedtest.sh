#!/bin/sh
# usage: tools/seedtest.sh <dir with patch.diff demo.py meta.json> [check ids...]
# 1. confirms the seeded change in a scratch copy: demo passes clean / fails patched, test suite passes patched
# 2. runs the given checks (default: the property in meta.json, quick tier) against the patched scratch copy
set -u
D="$(cd "$(dirname "$0")/.." && pwd)"
SD="$(cd "$1" && pwd)"; shift
S=$(mktemp -d /tmp/vpseed.XXXXXX)
trap 'rm -rf "$S"' EXIT
mkdir -p "$S/clean" "$S/mut"
(cd /repo && git archive HEAD) | tar -x -C "$S/clean"
(cd /repo && git archive HEAD) | tar -x -C "$S/mut"
(cd "$S/mut" && git apply --unsafe-paths "$SD/patch.diff" 2>/dev/null || patch -p1 -s < "$SD/patch.diff") || { echo "SEED: patch does not apply"; exit 2; }
PID=$(python3 -c "import json,sys;print(json.load(open('$SD/meta.json'))['property'])")
echo "== seed $SD (property $PID)"
(cd "$S/clean" && PYJELLY_ROOT="$S/clean" PYTHONPATH="$S/clean" PYTHONDONTWRITEBYTECODE=1 timeout 120 /venv/bin/python "$SD/demo.py" >/dev/null 2>&1); c=$?
(cd "$S/mut" && PYJELLY_ROOT="$S/mut" PYTHONPATH="$S/mut" PYTHONDONTWRITEBYTECODE=1 timeout 120 /venv/bin/python "$SD/demo.py" >/dev/null 2>&1); m=$?
t=$(cd "$S/mut" && PYTHONPATH="$S/mut" timeout 1200 /venv/bin/python -m pytest -q -p no:cacheprovider --timeout=900 --continue-on-collection-errors 2>&1 | grep -E "passed|failed" | tail -1)
echo "demo clean exit=$c (want 0); demo patched exit=$m (want !=0); tests patched: $t"
[ "$#" -eq 0 ] && set -- "$PID"
for id in "$@"; do
  tier=quick; case "$id" in *:thorough) tier=thorough; id=${id%:thorough};; esac
  out=$(VP_REPO="$S/mut" VP_EVIDENCE_DIR="$S/ev" VP_REPLAY_DIR="$S/replays" "$D/jcheck" check "$id" --tier $tier 2>&1); rc=$?
  echo "check $id $tier: exit=$rc $(echo "$out" | grep -c VIOLATION) violation line(s); $(echo "$out" | grep -E 'tier=' | head -1)"
  echo "$out" | grep -E "VIOLATION|unit=|HARNESS" | head -4
done
