"""Finite term alphabets: a representative on each side of every content test pyjelly performs
(DESIGN.md 2.6): '#'/'/' split, empty prefix / empty name, language / datatype / xsd:string, default graph."""
from vpkg.ref.jelly import XSD_STRING

I_AX = ("iri", "http://a/x")
I_AY = ("iri", "http://a/y")
I_BX = ("iri", "http://b#x")         # other prefix, same name as I_AX
I_URN = ("iri", "urn:q")              # no separator: empty prefix
I_EMPTY = ("iri", "")                 # empty IRI
I_ANAME0 = ("iri", "http://a/")       # empty name
I_UNI = ("iri", "http://ü/ż#𝄞")       # non-ASCII BMP + astral
I_CZ = ("iri", "http://c/z")
B1 = ("bnode", "b1")
B2 = ("bnode", "")
L_PLAIN = ("lit", "x", None, None)
L_EMPTY = ("lit", "", None, None)
L_LANG = ("lit", "x", "en", None)
L_DT1 = ("lit", "1", None, "http://dt/1")
L_DT2 = ("lit", "1", None, "http://dt#2")
L_XSD = ("lit", "x", None, XSD_STRING)
QT = ("triple", I_AX, I_AY, L_DT1)
QT2 = ("triple", B1, I_BX, ("triple", I_URN, I_AY, L_LANG))
QT3 = ("triple", I_AX, I_AY, L_LANG)   # shares subject and predicate positions with QT
DEF = ("default",)

ALPH = {
    # generic API (generalized + RDF-star)
    "gS": [I_AX, I_BX, B1, QT, L_PLAIN],
    "gP": [I_AY, I_URN, I_EMPTY, I_AX],   # I_AX also occurs as object of a spine: predicate == previous object
    "gO": [I_AX, L_PLAIN, L_LANG, L_DT1, L_DT2, L_XSD, B1, QT, I_ANAME0, I_UNI, L_EMPTY, B2, QT3],
    "gG": [DEF, I_AX, B1, L_DT1],
    # reduced
    "gS3": [I_AX, I_BX, B1],
    "gO5": [I_AX, L_PLAIN, L_DT1, L_XSD, QT, L_EMPTY, QT3],
    "gO4": [I_AY, L_LANG, L_DT2, I_UNI],
    "gG3": [DEF, I_AX, B1],
    # rdflib (RDF 1.1)
    "rS": [I_AX, I_BX, B1],
    "rP": [I_AY, I_URN, I_AX],
    "rO": [I_AX, L_PLAIN, L_LANG, L_DT1, L_DT2, L_XSD, B1, I_UNI, L_EMPTY],
    "rG": [DEF, I_AX, B1],
    "rG4": [DEF, I_AX, B1, ("bnode", "http://a/x")],   # a blank node whose label equals an IRI used as graph name
    "rO5": [I_AX, L_LANG, L_DT1, L_XSD, B1, L_EMPTY, L_PLAIN],   # L_PLAIN / L_LANG / L_XSD share the lexical form
}

SPINES = {
    1: [("T", I_AX, I_AY, L_DT1), ("T", B1, I_URN, QT), ("T", I_BX, I_AY, I_AX), ("T", QT, I_EMPTY, L_XSD)],
    2: [("Q", I_AX, I_AY, L_DT1, DEF), ("Q", B1, I_URN, QT, I_AX), ("Q", I_BX, I_AY, I_AX, B1), ("Q", QT, I_EMPTY, L_XSD, L_DT1)],
}
SPINES[3] = SPINES[2]
RSPINES = {
    1: [("T", I_AX, I_AY, L_DT1), ("T", B1, I_URN, L_LANG), ("T", I_BX, I_AY, I_AX)],
    2: [("Q", I_AX, I_AY, L_DT1, DEF), ("Q", B1, I_URN, L_XSD, I_AX), ("Q", I_BX, I_AY, I_AX, B1)],
}
RSPINES[3] = RSPINES[2]


def pick(sel, options):
    """Select options[sel] through a comparison chain (sel may be symbolic: one path per value)."""
    for i, o in enumerate(options):
        if sel == i:
            return o
    raise IndexError("selector out of range")


def pick_index(sel, n):
    """the concrete int equal to sel (sel may be symbolic: one path per value)"""
    for i in range(n):
        if sel == i:
            return i
    raise IndexError("selector out of range")
