"""./jcheck check <ID> --tier quick|thorough   |   ./jcheck replay <file>"""
from __future__ import annotations

import argparse
import json
import os
import sys
import time

from vpkg import engine
from vpkg.engine import ROOT, HarnessError, run_units, sha

EXIT_OK, EXIT_VIOLATION, EXIT_HARNESS = 0, 1, 3


def _mk(u, **kw):
    d = dict(u)
    d.update(kw)
    return d


def check(pid: str, tier: str, only: str | None = None, verbose: bool = False) -> int:
    from vpkg import props

    t0 = time.time()
    seed = int(os.environ.get("VERIF_SEED", "0") or 0)
    spec = props.SPEC[pid]
    units = props.units(pid, tier)
    if only:
        units = [u for u in units if only in u["id"]]
    for u in units:
        u.setdefault("mode", "decide")
    twins = [u for u in units if u.get("expect") == "REFUTED"]
    decide = [u for u in units if u.get("expect") != "REFUTED"]

    def progress(msg):
        if verbose:
            print(f"  [{time.time()-t0:6.1f}s] {msg['id']}: {msg.get('status')} paths={msg.get('paths')} "
                  f"cpu={msg.get('cpu_s')} {msg.get('message','')[:160]}", file=sys.stderr, flush=True)

    # longest first
    order = sorted(units, key=lambda u: -float(u.get("timeout", 60)))
    try:
        res = run_units(order, progress=progress)
    except HarnessError as e:
        print(f"HARNESS-ERROR: {e}")
        return EXIT_HARNESS

    harness_errors = []
    unfinished = []
    refuted = []
    for u in twins:
        r = res.get(u["id"], {})
        if r.get("status") == "SKIPPED":
            continue   # the twin of a skipped unit
        if r.get("status") != "REFUTED":
            harness_errors.append(f"reachability twin {u['id']} came back {r.get('status')}: {r.get('message','')[:200]}")
    for u in decide:
        r = res.get(u["id"], {"status": "ERROR", "message": "no result"})
        st = r.get("status")
        if st == "CONFIRMED":
            continue
        if st == "REFUTED":
            refuted.append((u, r))
        elif st == "SKIPPED":
            unfinished.append({"unit": u["id"], "status": st, "why": r.get("message", "")[:300]})
        elif st in ("ERROR",):
            harness_errors.append(f"unit {u['id']} error: {r.get('message','')[:300]} {r.get('trace','')[-600:]}")
        else:
            unfinished.append({"unit": u["id"], "status": st, "why": r.get("message", "")[:300]})

    # ---- replay counterexamples natively ------------------------------------------------
    violations = []
    nonrepro = []
    native_runs = 0
    funcs = set()
    if refuted:
        nat = []
        for u, r in refuted:
            cex = r.get("cex")
            if cex is None:
                harness_errors.append(f"unit {u['id']} REFUTED without recorded inputs: {r.get('message','')[:300]} {r.get('trace','')[-800:]}")
                continue
            inp = dict(cex, fn=u["fn"]) if u.get("replay_fn") else cex
            nat.append(_mk(u, id="replay:" + u["id"], mode="native", inputs=[inp],
                           fn=u.get("replay_fn") or u["fn"], hard_timeout=60))
        nres = run_units(nat) if nat else {}
        for u, r in refuted:
            nr = nres.get("replay:" + u["id"])
            if nr is None:
                continue
            native_runs += 1
            funcs.update(nr.get("functions") or [])
            out = (nr.get("results") or [None])[0]
            timed_out = nr.get("status") == "TIMEOUT"
            if out is False or timed_out or (isinstance(out, str) and out.startswith("EXC:") and out != "EXC:LookupError"):
                rec = {"property": pid, "unit": {k: u[k] for k in ("id", "module", "fn", "params") if k in u},
                       "replay_fn": u.get("replay_fn"), "inputs": r["cex"], "native_result": out if not timed_out else "TIMEOUT",
                       "message": r.get("message", "")[:500]}
                d = os.path.join(os.environ.get("VP_REPLAY_DIR") or os.path.join(ROOT, "replays"), pid)
                os.makedirs(d, exist_ok=True)
                path = os.path.join(d, sha(rec["unit"] | {"i": rec["inputs"]}) + ".json")
                json.dump(rec, open(path, "w"), indent=1)
                violations.append((u, path, rec))
            else:
                nonrepro.append({"unit": u["id"], "inputs": r["cex"], "native_result": out,
                                 "message": r.get("message", "")[:300]})

    # ---- paths CrossHair abandoned on its time limit: a native replay that does not return within 60 s is a hang
    hang_units = []
    for u in decide:
        r = res.get(u["id"], {})
        cands = list((r.get("abandoned") or [])[:4])
        if r.get("last_open") and (r.get("died") or r.get("status") == "TIMEOUT"):
            cands.append(r["last_open"])    # the inputs the worker was executing when it died / had to be killed
        for k, inp in enumerate(cands):
            hang_units.append((u, inp, _mk(u, id=f"hang:{u['id']}:{k}", mode="native", inputs=[inp], hard_timeout=60)))
    if hang_units:
        hres = run_units([h[2] for h in hang_units])
        for u, inp, hu in hang_units:
            hr = hres.get(hu["id"], {})
            native_runs += 1
            crashed = bool(hr.get("died"))
            balloon = float(hr.get("maxrss_growth_mb") or 0) > 512
            if hr.get("status") == "TIMEOUT" or crashed or balloon:
                what = "TIMEOUT" if hr.get("status") == "TIMEOUT" else ("CRASH rc=%s" % hr.get("rc") if crashed else "MEMORY +%s MiB" % hr.get("maxrss_growth_mb"))
                harness_errors[:] = [h for h in harness_errors if u["id"] not in h]
                rec = {"property": pid, "unit": {k: u[k] for k in ("id", "module", "fn", "params") if k in u}, "replay_fn": None,
                       "inputs": inp, "native_result": what, "message": "path abandoned / worker lost; the native replay of its inputs did not return within 60 s, killed the interpreter, or grew by more than 512 MiB"}
                d = os.path.join(os.environ.get("VP_REPLAY_DIR") or os.path.join(ROOT, "replays"), pid)
                os.makedirs(d, exist_ok=True)
                path = os.path.join(d, sha(rec["unit"] | {"i": rec["inputs"]}) + ".json")
                json.dump(rec, open(path, "w"), indent=1)
                violations.append((u, path, rec))

    # a non-reproducing inductive counterexample (unreachable pre-state) is inconclusive, not a violation
    for n in nonrepro:
        if n["native_result"] == "EXC:LookupError":
            unfinished.append({"unit": n["unit"], "status": "INDUCTIVE-CEX-UNREACHABLE",
                               "why": "step failed from a pre-state the real code does not reach via the public API", "inputs": n["inputs"]})
        else:
            harness_errors.append(f"counterexample of {n['unit']} did not reproduce natively: {n['inputs']} -> {n['native_result']}")

    # ---- sampling pass (T1): CrossHair verdict vs native verdict on concrete inputs ------
    samples = []
    agree = 0
    disagree = []
    samp_units = props.sample_units(pid, tier, decide)
    if samp_units and not only:
        sres = run_units(samp_units)
        nat = []
        for su in samp_units:
            sr = sres.get(su["id"], {})
            ss = sr.get("samples") or []
            if ss:
                nat.append(_mk(su, id="native:" + su["id"], mode="native", inputs=[s["args"] for s in ss],
                               hard_timeout=120))
        nres = run_units(nat) if nat else {}
        for su in samp_units:
            ss = (sres.get(su["id"], {}) or {}).get("samples") or []
            nr = nres.get("native:" + su["id"], {})
            funcs.update(nr.get("functions") or [])
            for s, out in zip(ss, nr.get("results") or []):
                native_runs += 1
                if s["result"] == out:
                    agree += 1
                else:
                    disagree.append({"unit": su["id"], "args": s["args"], "symbolic": s["result"], "native": out})
                if out is False or (isinstance(out, str) and out.startswith("EXC:")):
                    # a concrete input on which the property fails NATIVELY is a violation whatever the symbolic run said
                    rec = {"property": pid, "unit": {k: su[k] for k in ("module", "fn", "params") if k in su} | {"id": su["id"]},
                           "replay_fn": None, "inputs": s["args"], "native_result": out, "message": "found by the sampling pass (native execution)"}
                    d = os.path.join(os.environ.get("VP_REPLAY_DIR") or os.path.join(ROOT, "replays"), pid)
                    os.makedirs(d, exist_ok=True)
                    path = os.path.join(d, sha(rec["unit"] | {"i": rec["inputs"]}) + ".json")
                    json.dump(rec, open(path, "w"), indent=1)
                    violations.append((su, path, rec))
                if len(samples) < 12:
                    samples.append({"unit": su["id"], "args": s["args"], "holds": out})
    if disagree:
        harness_errors.append(f"CrossHair/native disagreement on {len(disagree)} sampled inputs, e.g. {disagree[0]}")

    # ---- known findings ---------------------------------------------------------------------
    known_lines = []
    kf_reports = []
    for f in engine.open_findings(pid):
        rep = f["repro"]
        nu = {"id": "known:" + f["id"], "mode": "native", "module": rep["module"], "fn": rep["fn"],
              "params": rep.get("params") or {}, "inputs": [rep["inputs"]], "hard_timeout": 60}
        nr = run_units([nu]).get(nu["id"], {})
        native_runs += 1
        out = (nr.get("results") or [None])[0]
        still = out is False or (isinstance(out, str) and out.startswith("EXC:"))
        kf_reports.append({"id": f["id"], "still_reproduces": still, "native_result": out})
        if still:
            known_lines.append(f"KNOWN-FINDING: property={pid} {f['what']}")
    # violations whose signature matches an open finding are not re-reported
    new_violations = []
    for u, path, rec in violations:
        if props.matches_known(pid, u, rec, engine.open_findings(pid)):
            continue
        new_violations.append((u, path, rec))

    # ---- evidence ---------------------------------------------------------------------------
    paths = sum(int(r.get("paths") or 0) for r in res.values())
    queries = sum(int(r.get("queries") or 0) for r in res.values())
    solver_s = sum(float(r.get("solver_s") or 0) for r in res.values())
    confirmed = [u["id"] for u in decide if res.get(u["id"], {}).get("status") == "CONFIRMED"]
    ev = {
        "property_id": pid,
        "tier": tier,
        "seed": seed,
        "level": "model_checking",
        "coverage": {
            "states": max(paths, 0),
            "transitions": max(queries, 0),
            "traces_validated_against_impl": native_runs,
            "samples": samples or [{"unit": u["id"], "params": u.get("params")} for u in decide[:6]],
            "exhaustive": not unfinished and not harness_errors and len(confirmed) == len(decide),
            "explanation": spec.get("explanation", ""),
            "technique": "bounded symbolic execution of /repo's functions (CrossHair 0.0.110) with z3 deciding every branch; "
                         "states = feasible paths explored, transitions = solver queries (Solver.check calls)",
            "functions_encoded": spec.get("functions", []),
            "functions_observed_in_native_runs": sorted(funcs),
            "bounds": spec.get("bounds", {}).get(tier, spec.get("bounds")),
            "outside_bounds": spec.get("outside", ""),
            "units_total": len(decide),
            "units_confirmed": len(confirmed),
            "units_unfinished": unfinished,
            "reachability_twins": {"total": len(twins), "refuted_as_required": len(twins) - sum(1 for h in harness_errors if h.startswith("reachability"))},
            "solver_queries": queries,
            "solver_time_s": round(solver_s, 2),
            "cpu_s": round(sum(float(r.get("cpu_s") or 0) for r in res.values()), 1),
            "units": [{"id": u["id"], "status": res.get(u["id"], {}).get("status"), "paths": res.get(u["id"], {}).get("paths"),
                       "queries": res.get(u["id"], {}).get("queries"), "cpu_s": res.get(u["id"], {}).get("cpu_s")} for u in units][:400],
            "sampling_pass": {"agree": agree, "disagree": len(disagree)},
            "known_findings": kf_reports,
            "violations_detail": [{"unit": u["id"], "replay": os.path.relpath(p, ROOT), "inputs": rec["inputs"]} for u, p, rec in new_violations],
            "harness_errors": harness_errors,
            "repo": engine.repo_state(),
        },
        "assumptions": spec.get("assumptions", []) + props.COMMON_ASSUMPTIONS,
        "wall_s": round(time.time() - t0, 2),
        "violations": len(new_violations),
    }
    if ev["coverage"]["states"] < 1:
        ev["coverage"]["states"] = 1
    if ev["coverage"]["transitions"] < 1:
        ev["coverage"]["transitions"] = 1
    if not only:
        evdir = os.environ.get("VP_EVIDENCE_DIR") or os.path.join(ROOT, "evidence")
        os.makedirs(evdir, exist_ok=True)
        json.dump(ev, open(os.path.join(evdir, pid + ".json"), "w"), indent=1, default=repr)

    print(f"{pid} tier={tier}: units={len(decide)} confirmed={len(confirmed)} unfinished={len(unfinished)} "
          f"refuted={len(refuted)} paths={paths} queries={queries} solver_s={solver_s:.1f} wall={time.time()-t0:.1f}s")
    for u in unfinished[:10]:
        print(f"  unfinished: {u['unit']} {u['status']} {u.get('why','')[:120]}")
    for line in known_lines:
        print(line)
    for u, path, rec in new_violations:
        print(f"VIOLATION property={pid} replay={path}")
        print(f"  unit={u['id']} inputs={json.dumps(rec['inputs'])[:400]}")
    if new_violations:
        return EXIT_VIOLATION
    if harness_errors:
        for h in harness_errors[:10]:
            print("HARNESS-ERROR:", h)
        return EXIT_HARNESS
    return EXIT_OK


def replay(path: str) -> int:
    rec = json.load(open(path))
    u = rec["unit"]
    fn = rec.get("replay_fn") or u["fn"]
    inputs = dict(rec["inputs"])
    if rec.get("replay_fn"):
        inputs["fn"] = u["fn"]
    nu = {"id": "replay", "mode": "native", "module": u["module"], "fn": fn, "params": u.get("params") or {},
          "inputs": [inputs], "hard_timeout": 60}
    nr = run_units([nu]).get("replay", {})
    out = (nr.get("results") or [None])[0]
    print(f"replay {path}: native result = {out!r} (False / EXC / TIMEOUT = property violated)")
    if out is False or nr.get("status") == "TIMEOUT" or (isinstance(out, str) and out.startswith("EXC:")):
        print(f"VIOLATION property={rec['property']} replay={path}")
        return EXIT_VIOLATION
    return EXIT_OK


def main() -> None:
    ap = argparse.ArgumentParser()
    sub = ap.add_subparsers(dest="cmd", required=True)
    c = sub.add_parser("check")
    c.add_argument("pid")
    c.add_argument("--tier", default=os.environ.get("VERIF_TIER", "quick"))
    c.add_argument("--only", default=None)
    c.add_argument("-v", action="store_true")
    r = sub.add_parser("replay")
    r.add_argument("path")
    a = ap.parse_args()
    if a.cmd == "check":
        sys.exit(check(a.pid, a.tier, a.only, a.v))
    sys.exit(replay(a.path))


if __name__ == "__main__":
    main()
