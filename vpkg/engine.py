"""Master side: worker pool, unit scheduling, verdict logic, replay, evidence."""
from __future__ import annotations

import hashlib
import json
import os
import selectors
import subprocess
import sys
import time

ROOT = os.path.dirname(os.path.dirname(os.path.abspath(__file__)))
REPO = os.environ.get("VP_REPO", "/repo")
NCPU = int(os.environ.get("VP_JOBS", str(os.cpu_count() or 4)))
import tempfile  # noqa: E402

SIDE_DIR = tempfile.mkdtemp(prefix="vpside.")
import atexit  # noqa: E402
import shutil  # noqa: E402

atexit.register(lambda: shutil.rmtree(SIDE_DIR, ignore_errors=True))


def side_inputs(pid):
    try:
        with open(os.path.join(SIDE_DIR, f"{pid}.json")) as f:
            return json.load(f)
    except (OSError, ValueError):
        return None


class Worker:
    def __init__(self):
        env = dict(os.environ)
        env["PYTHONPATH"] = f"{REPO}:{ROOT}"
        env["PYTHONDONTWRITEBYTECODE"] = "1"
        env.setdefault("PYTHONHASHSEED", "0")
        env["VP_REPO"] = REPO
        env["VP_SIDE_DIR"] = SIDE_DIR
        self.p = subprocess.Popen(
            [sys.executable, "-m", "vpkg.worker"], stdin=subprocess.PIPE, stdout=subprocess.PIPE,
            stderr=subprocess.DEVNULL if not os.environ.get("VP_DEBUG") else None,
            env=env, cwd=ROOT, text=True, bufsize=1)
        self.unit = None
        self.deadline = 0.0
        self.ready = False

    def send(self, unit):
        self.unit = unit
        hard = unit.get("hard_timeout") or (float(unit.get("timeout", 60)) * 1.5 + 45)
        self.deadline = time.time() + hard
        self.p.stdin.write(json.dumps(unit) + "\n")
        self.p.stdin.flush()

    def kill(self):
        try:
            self.p.kill()
            self.p.wait(timeout=5)
        except Exception:  # noqa: BLE001
            pass


def run_units(units, jobs=None, progress=None):
    """Run all units; returns dict id -> result. Never raises for unit failures."""
    jobs = min(jobs or NCPU, max(1, len(units)))
    todo = list(units)[::-1]
    results = {}
    sel = selectors.DefaultSelector()
    workers = []

    def spawn():
        w = Worker()
        sel.register(w.p.stdout, selectors.EVENT_READ, w)
        workers.append(w)
        return w

    for _ in range(jobs):
        spawn()
    fatal = None
    while (todo or any(w.unit for w in workers)) and not fatal:
        for key, _ in sel.select(timeout=1.0):
            w = key.data
            line = w.p.stdout.readline()
            if not line:
                # worker died
                sel.unregister(w.p.stdout)
                workers.remove(w)
                if w.unit is not None:
                    results[w.unit["id"]] = {"id": w.unit["id"], "status": "ERROR", "died": True, "rc": w.p.poll(),
                                             "last_open": side_inputs(w.p.pid),
                                             "message": "worker died (rc=%s)" % w.p.poll()}
                w.kill()
                if todo:
                    spawn()
                continue
            msg = json.loads(line)
            if "fatal" in msg:
                fatal = msg["fatal"]
                break
            if msg.get("ready"):
                w.ready = True
            else:
                results[msg["id"]] = msg
                if progress:
                    progress(msg)
                w.unit = None
            if w.ready and w.unit is None and todo:
                w.send(todo.pop())
        now = time.time()
        for w in list(workers):
            if w.unit is not None and now > w.deadline:
                results[w.unit["id"]] = {"id": w.unit["id"], "status": "TIMEOUT", "last_open": side_inputs(w.p.pid),
                                         "message": "hard wall-clock limit hit; worker killed"}
                if progress:
                    progress(results[w.unit["id"]])
                sel.unregister(w.p.stdout)
                workers.remove(w)
                w.kill()
                if todo:
                    spawn()
    for w in workers:
        try:
            w.p.stdin.close()
        except Exception:  # noqa: BLE001
            pass
        w.kill()
    if fatal:
        raise HarnessError(fatal)
    return results


class HarnessError(Exception):
    pass


def sha(obj) -> str:
    return hashlib.sha256(json.dumps(obj, sort_keys=True, default=repr).encode()).hexdigest()[:12]


def load_known():
    p = os.path.join(ROOT, "known_findings.json")
    if not os.path.exists(p):
        return []
    return json.load(open(p))["findings"]


def open_findings(pid=None):
    return [f for f in load_known() if f.get("status") == "open" and (pid is None or f["property"] == pid)]


def repo_state():
    try:
        head = subprocess.run(["git", "-C", REPO, "rev-parse", "HEAD"], capture_output=True, text=True).stdout.strip()
        diff = subprocess.run(["git", "-C", REPO, "diff", "HEAD", "--", "pyjelly"], capture_output=True, text=True).stdout
        return {"head": head, "dirty": bool(diff.strip()), "diff_sha": hashlib.sha256(diff.encode()).hexdigest()[:12]}
    except Exception:  # noqa: BLE001
        return {}
