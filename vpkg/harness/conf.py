"""H-CONF: the serializer configuration lattice. Either the call raises, or everything handed in is in the bytes.

P: integ, entry, phys (stream class for stream_frames entries / input kind otherwise), K.
Symbolic: lt (index into the 8 logical types), delim, flowsel (0 = inferred, 1.. = explicit FrameFlow class), fs.
"""
from __future__ import annotations

import io

from pyjelly import jelly
from pyjelly.serialize import flows as F

from vpkg import alpha, known, pj
from vpkg.hutil import fin, notrace
from vpkg.terms import norm_item

P: dict = {}
CEX = None
M = __name__

LOGICAL = [0, 1, 2, 3, 4, 13, 14, 114]
FLOWS = [None, F.ManualFrameFlow, F.BoundedFrameFlow, F.FlatTriplesFrameFlow, F.FlatQuadsFrameFlow,
         F.GraphsFrameFlow, F.DatasetsFrameFlow, F.FrameFlow]

ITEMS = {
    1: [("T", alpha.I_AX, alpha.I_AY, alpha.L_DT1), ("T", alpha.B1, alpha.I_AY, alpha.I_BX), ("T", alpha.B1, alpha.I_URN, alpha.L_LANG)],
    2: [("Q", alpha.I_AX, alpha.I_AY, alpha.L_DT1, alpha.DEF), ("Q", alpha.B1, alpha.I_AY, alpha.I_BX, alpha.I_AX),
        ("Q", alpha.B1, alpha.I_URN, alpha.L_LANG, alpha.I_AX)],
}
ITEMS[3] = ITEMS[2]


def make_flow(flowsel, lt, fs):
    cls = alpha.pick(flowsel, FLOWS)
    if cls is None:
        return None
    if issubclass(cls, F.BoundedFrameFlow):
        return cls(logical_type=lt or None, frame_size=fs)
    if cls is F.FrameFlow:
        return cls(logical_type=lt)
    return cls(logical_type=lt or None)


def known_c06(delim, lt, flowsel, entry) -> bool:
    """signature of the open known finding C06-nonflat-tail (see known_findings.json)"""
    return False


def conf(lt: int, delim: bool, fs: int, ns: bool) -> bool:
    """
    pre: 0 <= lt < 8 and fs >= 1 and (not ns or P.get("ns_sym", False))
    post: _
    """
    integ, entry, phys, K = P["integ"], P["entry"], P["phys"], P["K"]
    flowsel = P["flowsel"]
    try:
        ltv = alpha.pick(lt, LOGICAL)
        items = ITEMS[phys][:K]
        want = [norm_item(i) for i in items]
        stream = None
        try:
            flow = make_flow(flowsel, ltv, fs)
            opts = pj.make_options(phys, frame_size=fs, delimited=bool(delim), logical=ltv, flow=flow, ns=bool(ns),
                                   generalized=integ == "generic", rdf_star=integ == "generic")
            if integ == "generic":
                if entry == "stream_frames":
                    from pyjelly.integrations.generic import serialize as gs
                    stream = pj.gen_stream(phys, opts)
                    data = pj.write_frames(gs.stream_frames(stream, pj.gen_sink(items, [("ex", "http://a/")]) if P.get("sink") else (pj.terms.item_to_generic(i) for i in items)), bool(delim))
                else:
                    data = pj.gen_serialize(items, phys, opts, entry=entry)
            else:
                if entry == "stream_frames":
                    from pyjelly.integrations.rdflib import serialize as rs
                    stream = pj.PHYS_STREAM[phys].for_rdflib(opts)
                    data = pj.write_frames(rs.stream_frames(stream, (pj.rdf_item(i) for i in items)), bool(delim))
                else:
                    data = pj.rdf_serialize(items, phys, opts, entry=entry)
        except Exception:  # noqa: BLE001
            # the configuration was refused: that is always acceptable
            return fin(M, not P.get("twin"), lt=lt, delim=delim, fs=fs, ns=ns)
        ok = True
        if stream is not None and len(stream.flow) != 0:
            ok = False
        with notrace():
            data = bytes(data)
            try:
                if integ == "generic":
                    got = [norm_item(i) for i in pj.gen_parse(data)]
                else:
                    got = [norm_item(i) for i in pj.rdf_parse(data)]
                got = [i for i in got if i[0] != "NS"]   # declarations are C14's subject; here: no statement may be lost
            except Exception:  # noqa: BLE001
                got = None
            proj = P.get("projection")
            w = want
            if got is not None and proj == "triples-if-triplestream" and got and got[0][0] == "T":
                # documented: guess_stream picks TripleStream for a GRAPHS-family logical type even for quads
                w = [("T",) + i[1:4] for i in want]
            if got is None:
                ok = False
            elif P.get("setcmp"):
                ok = ok and sorted(map(repr, set(got))) == sorted(map(repr, set(w)))
            else:
                ok = ok and got == w
        if P.get("twin"):
            ok = False
    except Exception:  # noqa: BLE001
        ok = False
    return fin(M, ok, lt=lt, delim=delim, fs=fs, ns=ns)


def probe():
    st = pj.gen_stream(1, pj.make_options(1))
    st.flow, st.enroll, st.flow.to_stream_frame  # noqa: B018
    len(st.flow)
