"""C15: all parsing entry points and both integrations agree; both serializers are byte-identical."""
from __future__ import annotations

from typing import List

from vpkg import alpha, pj
from vpkg.harness import pipe
from vpkg.hutil import fin, notrace
from vpkg.ref import jelly as R
from vpkg.terms import norm_item

P: dict = {}
CEX = None
M = __name__


def pre_diff(sel, fs) -> bool:
    pipe.P = dict(P, integ="rdflib")
    return pipe.pre_pipe(sel, fs)


def parse_all(data, phys):
    """results of the six entry points; store-based ones as sorted sets"""
    res = {}
    res["g.flat"] = [norm_item(i) for i in pj.gen_parse(data, entry="flat")]
    res["g.grouped"] = [norm_item(i) for i in pj.gen_parse(data, entry="grouped")]
    res["g.to_graph"] = [norm_item(i) for i in pj.gen_parse(data, entry="to_graph")]
    res["r.flat"] = [norm_item(i) for i in pj.rdf_parse(data, entry="flat")]
    res["r.grouped"] = [norm_item(i) for i in pj.rdf_parse(data, entry="grouped")]
    res["r.to_graph"] = [norm_item(i) for i in pj.rdf_parse(data, entry="to_graph")]
    res["lock.g"], res["lock.r"] = lockstep(data)
    return res


def lockstep(data):
    """both integrations' flat parsers consumed alternately, item by item, on the same bytes"""
    import io
    from pyjelly.integrations.generic import parse as gp
    from pyjelly.integrations.rdflib import parse as rp
    a, b = [], []
    for x, y in zip(gp.parse_jelly_flat(io.BytesIO(data)), rp.parse_jelly_flat(io.BytesIO(data))):
        a.append(norm_item(pj.terms.item_from_generic(x)))
        b.append(norm_item(pj.terms.item_from_rdflib(y)))
    return a, b


def agree(res):
    base = res["g.flat"]
    ok = res["g.grouped"] == base and res["g.to_graph"] == base and res["r.flat"] == base
    ok = ok and res["lock.g"] == base and res["lock.r"] == base
    s = sorted(map(repr, set(base)))
    # rdflib stores are sets: compare as sets; grouped = union over the per-frame datasets
    ok = ok and sorted(map(repr, set(res["r.grouped"]))) == s and sorted(map(repr, set(res["r.to_graph"]))) == s
    return ok


def diff(sel: List[int], fs: int) -> bool:
    """
    pre: pre_diff(sel, fs)
    post: _
    """
    phys = P["phys"]
    try:
        pipe.P = dict(P, integ="rdflib")
        items = pipe.build_items(sel)
        if not pipe.fits(items):
            return True
        kw = dict(frame_size=fs, delimited=P["delimited"], names=P["names"], prefixes=P["prefixes"], datatypes=P["datatypes"],
                  generalized=False, rdf_star=False)
        if P.get("logical") is not None:
            kw["logical"] = P["logical"]
        entry = P["entry"]
        dg = pj.gen_serialize(items, phys, pj.make_options(phys, **kw), entry=entry)
        dr = pj.rdf_serialize(items, phys, pj.make_options(phys, **kw), entry=entry)
        ok = bytes(dg) == bytes(dr) or P.get("setsem", False)
        with notrace():
            res = parse_all(bytes(dg), phys)
            wanted = [norm_item(i) for i in items]
            if P.get("project_triples"):
                # documented: guess_stream routes quads to a TripleStream for GRAPHS-family logical types (graph names dropped)
                wanted = [("T",) + i[1:4] for i in wanted]
            ok = ok and agree(res) and res["g.flat"] == wanted
            if bytes(dr) != bytes(dg):
                res2 = parse_all(bytes(dr), phys)
                ok = ok and agree(res2) and sorted(map(repr, set(res2["g.flat"]))) == sorted(map(repr, set(res["g.flat"])))
        if P.get("twin"):
            ok = False
    except Exception:  # noqa: BLE001
        ok = False
    return fin(M, ok, sel=sel, fs=fs)


def diff_ref(c1: int, c2: int, c3: int, c4: int, cut: int, delim: bool) -> bool:
    """
    pre: 0 <= c1 < 2 and 0 <= c2 < 2 and 0 <= c3 < 3 and 0 <= c4 < 2 and 0 <= cut < 4
    post: _
    """
    # bytes from the independent reference encoder (producer choices symbolic) through all six entry points
    phys = P["phys"]
    try:
        ch = {"redundant": alpha.pick(c1, [0, 1]), "explicit": alpha.pick(c2, [0, 1]), "victim": alpha.pick(c3, [0, 1, 2]), "norepeat": alpha.pick(c4, [0, 1])}
        ct = alpha.pick(cut, [0, 1, 2, 3])
        with notrace():
            def choose(tag, n):
                if tag.startswith("redundant"):
                    return ch["redundant"] % n
                if tag.startswith("explicit"):
                    return ch["explicit"] % n
                if tag.startswith("victim"):
                    return ch["victim"] % n
                if tag == "no-repeat":
                    return ch["norepeat"] % n
                return 0
            enc = R.RefEncoder(phys, names=8, prefixes=P["prefixes"], datatypes=2, choose=choose, generalized=False, rdf_star=False)
            want = []
            sts = alpha.RSPINES[phys] + [alpha.RSPINES[phys][0]]
            if phys == 3:
                for it in sts:
                    enc.graph_start(it[4])
                    enc.triple(*it[1:4])
                    enc.graph_end()
                    want.append(norm_item(it))
            else:
                for it in sts:
                    (enc.triple if phys == 1 else enc.quad)(*it[1:])
                    want.append(norm_item(it))
            n = len(enc.rows)
            cuts = {0: set(), 1: set(range(n)), 2: {1, n // 2}, 3: {0, 2, n - 2}}[ct]
            data = enc.to_bytes(delimited=bool(delim), cuts=cuts if delim else None, empty_frames={1} if (delim and ct == 2) else ())
        with notrace():  # data is concrete: nothing symbolic flows into the parsers
            res = parse_all(data, phys)
            ok = agree(res) and res["g.flat"] == want
        if P.get("twin"):
            ok = False
    except Exception:  # noqa: BLE001
        ok = False
    return fin(M, ok, c1=c1, c2=c2, c3=c3, c4=c4, cut=cut, delim=delim)
