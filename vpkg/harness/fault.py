"""H-FAULT (C20): a statement rejected by the serializer must not poison the rest of the stream."""
from __future__ import annotations

import copy

from vpkg import alpha, known, pj
from vpkg.hutil import fin, notrace
from vpkg.ref import jelly as R
from vpkg.terms import norm_item

P: dict = {}
CEX = None
M = __name__

# statements use fresh strings so that the terms encoded before the failing slot do assign entries
STM = {
    1: [("T", alpha.I_AX, alpha.I_AY, alpha.L_PLAIN), ("T", ("iri", "http://n/s2"), ("iri", "http://n/p2"), ("lit", "2", None, "http://dt/n2")),
        # third statement: the first IRI written is the FIRST-interned name (table index 1), then an IRI with an empty prefix
        ("T", alpha.B1, alpha.I_AX, alpha.I_URN)],
}
# variant "rep": consecutive statements share predicate, object and graph, so that a statement following a rejected
# one elides those slots (what a stale remembered term / stale message field would corrupt)
STM_REP = {
    1: [("T", alpha.I_AX, alpha.I_AY, alpha.L_PLAIN), ("T", ("iri", "http://n/s2"), alpha.I_AY, alpha.L_PLAIN),
        ("T", ("iri", "http://m/s3"), alpha.I_AY, alpha.L_PLAIN)],
}
STM_REP[2] = [i + (g,) for i, g in zip([("Q",) + t[1:] for t in STM_REP[1]], [alpha.DEF, ("iri", "http://g/2"), ("iri", "http://g/2")])]
STM_REP[3] = STM_REP[2]
STM[2] = [i + (g,) for i, g in zip([("Q",) + t[1:] for t in STM[1]], [alpha.DEF, ("iri", "http://g/2"), ("iri", "http://g/2")])]
STM[3] = STM[2]
CAUSES = ["unsupported", "typed_literal_disabled", "arity"]
SLOTS = ["s", "p", "o", "g", "nested"]


class Weird:
    """a term type neither integration knows"""


def failing_index(cause, slot, n):
    """index (in encoding order s,p,o,g) of the term at which the rejection strikes"""
    if cause == "arity":
        return {"s": 0, "p": 1, "o": 2, "g": n - 1, "nested": 2}[slot]   # the first MISSING term ("s": an empty tuple)
    return {"s": 0, "p": 1, "o": 2, "g": 3, "nested": 2}[slot]


def expected_side_effects(prev, ts, fail_at, phys):
    """MODEL of the unchanged library (the open known finding C20-no-rollback): encoding a term that is not a repeat
    of the last accepted statement's term mutates repeated_terms / tables; GraphStream.graph() additionally appends
    the graph-start rows to the flow before the triple is encoded. The rejection leaves a trace iff any term BEFORE
    the failing one was actually encoded."""
    if phys == 3 and fail_at < 3:
        return True   # the graph-start rows are already in the flow when a triple of the graph is rejected
    if phys == 3:
        return False  # an unencodable graph NAME is refused by encode_graph before anything is appended
    for j in range(fail_at):
        if prev is None or prev[1 + j] != ts[j]:
            return True
    return False


def make_bad(base, cause, slot, integ, phys, prev=None):
    """-> (python-level terms for the real API) of a statement that must be rejected, or None if n/a.
    With prev given, the terms before the failing one repeat the previous accepted statement."""
    conv = pj.terms.to_generic if integ == "generic" else pj.terms.to_rdflib
    bad_lit = ("lit", "9", None, "http://dt/zzz")
    ts = list(base[1:])
    n = len(ts)
    if prev is not None:
        k = failing_index(cause, slot, n)
        ts[:k] = list(prev[1:1 + k])
    if cause == "arity":
        # a tuple that is too short: cut before the term of `slot` (the encoders pull terms one by one)
        keep = failing_index(cause, slot, n)
        return [conv(t) for t in ts[:keep]]
    if slot == "nested":
        if integ != "generic":
            return None
        # first nested term is a blank node (touches no table), the SECOND one is unencodable
        inner = [conv(("bnode", "q1")), Weird() if cause == "unsupported" else conv(bad_lit), conv(("bnode", "q2"))]
        from pyjelly.integrations.generic.generic_sink import Triple
        out = [conv(t) for t in ts]
        out[2] = Triple(*inner)
        return out
    idx = "spog".index(slot)
    if idx >= n:
        return None
    out = [conv(t) for t in ts]
    if cause == "unsupported":
        out[idx] = Weird()
    else:
        if integ == "rdflib" and idx != 2:
            return None  # rdflib: literals only in object position
        out[idx] = conv(bad_lit)
    return out


def snapshot(stream):
    e = stream.encoder
    return copy.deepcopy([(list(t.lookup.data.items()), t.lookup._evicting, t.last_assigned_index, t.last_reused_index)
                          for t in (e.names, e.prefixes, e.datatypes)]), [repr(x) for x in stream.repeated_terms], len(stream.flow)


def fault(f: int, cause: int, slot: int, fs: int, rp: bool) -> bool:
    """
    pre: 0 <= f < 3 and 0 <= cause < 3 and 0 <= slot < 5 and fs >= 1
    post: _
    """
    integ, phys = P["integ"], P["phys"]
    try:
        fpos = alpha.pick(f, [0, 1, 2])
        c = alpha.pick(cause, CAUSES)
        sl = alpha.pick(slot, SLOTS)
        dts = 0 if c == "typed_literal_disabled" else P["datatypes"]
        base = (STM_REP if P.get("rep") else STM)[phys]
        if dts == 0:
            base = [tuple(("lit", t[1], None, None) if t[0] == "lit" else t for t in it) if True else it for it in base]
            base = [(it[0],) + tuple(it[1:]) for it in base]
        opts = pj.make_options(phys, frame_size=fs, names=8, prefixes=P["prefixes"], datatypes=dts,
                               generalized=integ == "generic", rdf_star=integ == "generic")
        stream = pj.gen_stream(phys, opts) if integ == "generic" else pj.PHYS_STREAM[phys].for_rdflib(opts)
        conv_item = pj.terms.item_to_generic if integ == "generic" else pj.rdf_item
        stream.enroll()
        frames = []
        accepted = []
        side_effects = False
        expected = False
        later_calls = later_raised = 0
        prefix_ok = True
        faulted = False

        def emit(fr):
            if fr is not None:
                frames.append(fr)

        def put(terms_py):
            if phys == 1:
                emit(stream.triple(terms_py))
            elif phys == 2:
                emit(stream.quad(terms_py))
            else:
                g = terms_py[3] if len(terms_py) > 3 else None
                for fr in stream.graph(g, [terms_py[:3]]):
                    frames.append(fr)

        for i, it in enumerate(base):
            if i == fpos:
                prev = accepted[-1] if (rp and accepted) else None
                bad = make_bad(it, c, sl, integ, phys, prev)
                if bad is None:
                    return True
                ts_neutral = list(it[1:])
                if prev is not None:
                    kf = failing_index(c, sl, len(ts_neutral))
                    ts_neutral[:kf] = list(prev[1:1 + kf])
                expected = expected_side_effects(accepted[-1] if accepted else None, ts_neutral, failing_index(c, sl, len(ts_neutral)), phys)
                with notrace():
                    before = snapshot(stream)
                    # bytes written so far must be a decodable prefix of the accepted statements
                    done = bytes(pj.write_frames(list(frames), True))
                try:
                    put(bad)
                    # an unencodable / malformed statement was swallowed without an error: whatever was written for it
                    # cannot denote it, so the final bytes must still decode to exactly the accepted statements
                    continue
                except Exception:  # noqa: BLE001
                    faulted = True
                with notrace():
                    side_effects = snapshot(stream) != before
                # a caller that simply retries: the same unencodable statement must be rejected again
                try:
                    put(bad)   # the very same statement object again
                    retry_accepted = True
                except Exception:  # noqa: BLE001
                    retry_accepted = False
                if retry_accepted:
                    return fin(M, bool(expected and known.is_open("C20-no-rollback") and not P.get("ignore_known")) and not P.get("twin"),
                               f=f, cause=cause, slot=slot, fs=fs, rp=rp)
                with notrace():
                    side_effects = snapshot(stream) != before
                    if done:
                        try:
                            got0 = R.decode(done, complete=False)[0]   # a prefix may end inside an open graph
                            prefix_ok = got0 == [norm_item(a) for a in accepted][:len(got0)]
                        except Exception:  # noqa: BLE001
                            prefix_ok = False
                continue
            try:
                put(list(conv_item(it)))
                accepted.append(it)
                if faulted:
                    later_calls += 1
            except Exception:  # noqa: BLE001
                if not faulted:
                    return fin(M, False, f=f, cause=cause, slot=slot, fs=fs, rp=rp)
                later_calls += 1
                later_raised += 1
        emit(stream.flow.to_stream_frame())
        with notrace():
            data = bytes(pj.write_frames(frames, True))
            try:
                got = R.decode(data)[0]
                clean = got == [norm_item(a) for a in accepted]
            except Exception:  # noqa: BLE001
                clean = False
        # "the stream refuses further use": there were later calls and every one of them raised
        later_all_raise = faulted and later_calls > 0 and later_raised == later_calls
        ok = prefix_ok and (clean or later_all_raise)
        if not ok and faulted and expected and known.is_open("C20-no-rollback") and prefix_ok and not P.get("ignore_known"):
            ok = True  # exactly the open known finding: a term before the failing one had already been encoded
        if P.get("twin"):
            ok = False
    except Exception:  # noqa: BLE001
        ok = False
    return fin(M, ok, f=f, cause=cause, slot=slot, fs=fs, rp=rp)


def probe():
    st = pj.gen_stream(1, pj.make_options(1))
    snapshot(st)
    st.flow.to_stream_frame, st.repeated_terms  # noqa: B018
