"""L-FLOW, H-PULL (write side streaming) and H-STALL (parse side liveness)."""
from __future__ import annotations

import io
from typing import List

from pyjelly import jelly
from pyjelly.serialize import flows as F

from vpkg import alpha, pj
from vpkg.hutil import all_, fin, notrace
from vpkg.terms import norm_item

P: dict = {}
CEX = None
M = __name__

ITEMS_T = [("T", alpha.I_AX, alpha.I_AY, alpha.L_DT1), ("T", alpha.I_AX, alpha.I_AY, alpha.L_DT1),
           ("T", alpha.B1, alpha.I_URN, alpha.I_BX), ("T", alpha.B1, alpha.I_CZ, alpha.L_LANG), ("T", alpha.I_CZ, alpha.I_AY, alpha.L_DT2)]
ITEMS_Q = [i[:4] + (g,) for i, g in zip([("Q",) + t[1:] for t in ITEMS_T], [alpha.DEF, alpha.DEF, alpha.I_AX, alpha.B1, alpha.I_AX])]


# ------------------------------------------------------------------------------------------
def flow_lemma(fs: int, k: int, none_fs: bool) -> bool:
    """
    pre: 0 <= k <= P["kmax"] and fs >= 0
    post: _
    """
    try:
        cls = {"bounded": F.BoundedFrameFlow, "triples": F.FlatTriplesFrameFlow, "quads": F.FlatQuadsFrameFlow}[P["cls"]]
        flow = cls(frame_size=None if none_fs else fs)
        eff = flow.frame_size
        ok = (eff == F.DEFAULT_FRAME_SIZE) if (none_fs or fs == 0) else (eff == fs)
        rows = []
        for i in range(P["kmax"]):
            if i < k:
                r = jelly.RdfStreamRow(name=jelly.RdfNameEntry(id=i + 1, value="n"))
                rows.append(r)
                flow.append(r)
        frame = flow.frame_from_bounds()
        should = k >= eff
        if should:
            ok = ok & (frame is not None) & (len(flow) == 0)
            if frame is not None:
                ok = ok & (len(frame.rows) == k) & all_([frame.rows[i].name.id == i + 1 for i in range(len(frame.rows))])
        else:
            ok = ok & (frame is None) & (len(flow) == k)
        # explicit flush always empties the flow and keeps order
        f2 = flow.to_stream_frame()
        ok = ok & (len(flow) == 0) & ((f2 is None) == (should or k == 0))
        if P.get("twin"):
            ok = False
    except Exception:  # noqa: BLE001
        ok = False
    return fin(M, ok, fs=fs, k=k, none_fs=none_fs)


# ------------------------------------------------------------------------------------------
def rows_after(items, integ, phys):
    """cumulative number of rows (incl. options) after each statement; independent of framing"""
    with notrace():
        opts = pj.make_options(phys, frame_size=10**9, generalized=integ == "generic", rdf_star=integ == "generic")
        if integ == "generic":
            stream = pj.gen_stream(phys, opts)
            conv = pj.terms.item_to_generic
        else:
            stream = pj.PHYS_STREAM[phys].for_rdflib(opts)
            conv = pj.rdf_item
        stream.enroll()
        out = [len(stream.flow)]
        for it in items:
            (stream.triple if phys == 1 else stream.quad)(conv(it))
            out.append(len(stream.flow))
        return out


def pull(fs: int) -> bool:
    """
    pre: fs >= 1
    post: _
    """
    integ, phys, K = P["integ"], P["phys"], P["K"]
    try:
        items = (ITEMS_T if phys == 1 else ITEMS_Q)[:K]
        R = rows_after(items, integ, phys)  # R[i] rows produced after i statements
        st = {"pulls": 0, "got": 0}
        events = []
        conv = pj.terms.item_to_generic if integ == "generic" else pj.rdf_item

        def src():
            for it in items:
                st["pulls"] += 1
                events.append(("pull", st["pulls"], st["got"]))
                yield conv(it)
            st["pulls"] += 1
            events.append(("end", st["pulls"], st["got"]))

        if P.get("via_flow"):
            # the bound configured through an explicit flow object; options.frame_size keeps its default
            cls = F.FlatTriplesFrameFlow if phys == 1 else F.FlatQuadsFrameFlow
            opts = pj.make_options(phys, flow=cls(frame_size=fs), generalized=integ == "generic", rdf_star=integ == "generic")
        else:
            opts = pj.make_options(phys, frame_size=fs, generalized=integ == "generic", rdf_star=integ == "generic")
        if integ == "generic":
            from pyjelly.integrations.generic.serialize import flat_stream_to_frames
        else:
            from pyjelly.integrations.rdflib.serialize import flat_stream_to_frames
        ok = True
        for frame in flat_stream_to_frames(src(), opts):
            st["got"] += len(frame.rows)
            events.append(("frame", st["pulls"], st["got"], len(frame.rows)))
        for n_ev, (ev, pulls, got, *rest) in enumerate(events):
            if ev in ("pull", "end") and pulls >= 2:
                pending = R[pulls - 1] - got
                ok = ok & (pending < fs) & (pending >= 0)
            if ev == "frame":
                # the statement that completed this frame: first i with R[i] >= got
                done = min(i for i in range(len(R)) if R[i] >= got)
                if rest[0] >= fs:  # frame triggered by the bound: no input beyond the completing statement was consumed
                    ok = ok & (pulls <= max(done, 1))
                else:  # tail flush: only as the very last event, after the input ended
                    ok = ok & (n_ev == len(events) - 1) & (pulls == len(items) + 1)
        ok = ok & (st["got"] == R[-1])
        if P.get("twin"):
            ok = False
    except Exception:  # noqa: BLE001
        ok = False
    return fin(M, ok, fs=fs)


# ------------------------------------------------------------------------------------------
class Stall(Exception):
    pass


class StallSource(io.RawIOBase):
    """Non-seekable source: delivers data[:avail] (in reads of at most `chunk` bytes) and then blocks forever."""

    def __init__(self, data: bytes, avail, chunk):
        super().__init__()
        self.data, self.avail, self.chunk, self.pos = data, avail, chunk, 0

    def readable(self):
        return True

    def seekable(self):
        return False

    def readinto(self, b):
        if self.pos >= self.avail:
            raise Stall
        n = min(len(b), self.avail - self.pos, self.chunk)
        b[:n] = self.data[self.pos:self.pos + n]
        self.pos += n
        return n


LONG = "L" * 150


def make_stream(integ, phys, K, fs, lead_empty=False, mid_empty=False, long=False):
    with notrace():
        items = (ITEMS_T if phys == 1 else ITEMS_Q)[:K]
        if phys == 3:
            items = [ITEMS_Q[0], ITEMS_Q[1][:4] + (alpha.I_AX,), ITEMS_Q[2], ITEMS_Q[3][:4] + (alpha.I_AX,), ITEMS_Q[4]][:K]   # graphs: DEF, ax, ax, ax, ax -> runs
        if long:
            # long lexical forms: frames of >= 128 bytes, i.e. two-byte length prefixes
            items = [it if i == 0 else it[:3] + (("lit", LONG + str(i), None, None),) + it[4:] for i, it in enumerate(items)]
        opts = pj.make_options(phys, frame_size=fs, generalized=integ == "generic", rdf_star=integ == "generic")
        ser = pj.gen_serialize if integ == "generic" else pj.rdf_serialize
        if phys == 3:
            # GRAPHS physical type: graphs adapters keep the open graph across frames
            if integ == "generic":
                data = ser(items, phys, opts, entry="stream_frames")
            else:
                stream = pj.PHYS_STREAM[3].for_rdflib(opts)
                stream.enroll()
                frames = []
                import itertools
                for g, grp in itertools.groupby(items, key=lambda it: it[4]):
                    frames += list(stream.graph(pj.terms.to_rdflib(g), [tuple(pj.terms.to_rdflib(x) for x in it[1:4]) for it in grp]))
                tail = stream.flow.to_stream_frame()
                data = pj.write_frames(frames + ([tail] if tail is not None else []), True)
        else:
            data = ser(items, phys, opts, entry="flat_file")
        if lead_empty:
            data = b"\x00\x00" + data
        if mid_empty:
            from vpkg.ref import wire as _w
            ln, p2 = _w.dec_varint(data, 0)
            data = data[:p2 + ln] + b"\x00" + data[p2 + ln:]
        # frame boundaries and the items each frame holds (reference reading of the same bytes)
        from vpkg.ref import jelly as R
        from vpkg.ref import wire
        bounds, pos = [], 0
        dec = R.RefDecoder()
        per = []
        while pos < len(data):
            ln, p2 = wire.dec_varint(data, pos)
            before = len(dec.items)
            dec.frame(data[p2:p2 + ln])
            pos = p2 + ln
            bounds.append(pos)
            per.append([norm_item(i) for i in dec.items[before:]])
        return bytes(data), bounds, per


def stall(avail: int, chunk: int) -> bool:
    """
    pre: P["lo"] <= avail <= P["hi"] and 1 <= chunk and (chunk <= P["maxchunk"] or chunk >= P["len"])
    post: _
    """
    integ, phys = P["integ"], P["phys"]
    try:
        # both values end up realised at the first slice of the source anyway: pin them here (one path per value)
        for v in range(P["lo"], P["hi"] + 1):
            if avail == v:
                avail = v
                break
        for v in list(range(1, P["maxchunk"] + 1)) + [P["len"]]:
            if chunk <= v:
                chunk = v
                break
        data, bounds, per = make_stream(integ, phys, P["K"], P["fs"], P.get("lead_empty", False))
        assert len(data) == P["len"]
        src = StallSource(data, avail, chunk)
        got = []
        stalled = False
        try:
            if integ == "generic":
                from pyjelly.integrations.generic.parse import parse_jelly_flat
                for x in parse_jelly_flat(src):
                    got.append(norm_item(pj.terms.item_from_generic(x)))
            else:
                from pyjelly.integrations.rdflib.parse import parse_jelly_flat
                for x in parse_jelly_flat(src):
                    got.append(norm_item(pj.terms.item_from_rdflib(x)))
        except Stall:
            stalled = True
        except Exception:  # noqa: BLE001
            stalled = True  # an error instead of blocking is tolerated by this property (C10/C09 judge content)
        with notrace():
            a = int(avail)
            due = [it for b, its in zip(bounds, per) if b <= a for it in its]
            ok = got[:len(due)] == due and len(got) >= len(due)
            if a == len(data):
                ok = ok and not stalled or got == due
        if P.get("twin"):
            ok = False
    except Exception:  # noqa: BLE001
        ok = False
    return fin(M, ok, avail=avail, chunk=chunk)


# ------------------------------------------------------------------------------------------
def pull_graph(fs: int) -> bool:
    """
    pre: fs >= 1
    post: _
    """
    # GraphStream with a bounded (flat) flow driven graph by graph: whenever the stream asks for the next triple,
    # and whenever a graph is finished, fewer than frame_size rows are pending
    integ = P["integ"]
    try:
        opts = pj.make_options(3, frame_size=fs, generalized=integ == "generic", rdf_star=integ == "generic")
        stream = pj.gen_stream(3, opts) if integ == "generic" else pj.PHYS_STREAM[3].for_rdflib(opts)
        conv = pj.terms.to_generic if integ == "generic" else pj.terms.to_rdflib
        graphs = [(alpha.I_AX, ITEMS_T[0:2]), (alpha.DEF, ITEMS_T[2:3]), (alpha.B1, ITEMS_T[3:5])]
        stream.enroll()
        st = {"n": 0}
        ok = True
        viol = []

        def triples(ts):
            for j, t in enumerate(ts):
                st["n"] += 1
                # the rows of the graph start (entries + start marker) are appended before the first triple is asked
                # for; the bound is re-established after every triple and after every graph end
                allowance = (len(stream.flow) - st["before_graph"]) if j == 0 else 0
                if st["n"] >= 2 and not (len(stream.flow) - allowance < fs):
                    viol.append(1)
                yield tuple(conv(x) for x in t[1:4])

        total_rows = 0
        for gid, ts in graphs:
            st["before_graph"] = len(stream.flow)
            for fr in stream.graph(conv(gid), triples(ts)):
                total_rows += len(fr.rows)
            if not (len(stream.flow) < fs):
                viol.append(1)
        ok = not viol
        if P.get("twin"):
            ok = False
    except Exception:  # noqa: BLE001
        ok = False
    return fin(M, ok, fs=fs)


def probe():
    st = pj.gen_stream(1, pj.make_options(1))
    st.flow, st.enroll, st.flow.to_stream_frame  # noqa: B018
    len(st.flow)
