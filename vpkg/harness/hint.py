"""L-HINT: delimited_jelly_hint on every header a valid stream can start with (symbolic lengths).
H-PAIR: same content written delimited and non-delimited parses to the same result."""
from __future__ import annotations

from pyjelly.parse.ioutils import delimited_jelly_hint

from vpkg import alpha, pj
from vpkg.hutil import fin, notrace
from vpkg.terms import norm_item

P: dict = {}
CEX = None
M = __name__


def varint(n):
    """protobuf base-128 varint of a non-negative int, as a list of byte values (pure Python: stays symbolic)"""
    out = []
    while True:
        b = n % 128
        n = n // 128
        if n > 0:
            out.append(b + 128)
        else:
            out.append(b)
            return out


def check_varint_model():
    from google.protobuf.internal.encoder import _VarintBytes
    for n in [0, 1, 9, 10, 11, 127, 128, 129, 255, 256, 1290, 16383, 16384, 16394, 2**21 - 1, 2**21, 2**28 + 10]:
        assert bytes(varint(n)) == _VarintBytes(n), n


def hint(delimited: bool, O: int, extra: int, lead_empty: int, pad: int) -> bool:
    """
    pre: 0 <= O < 2097152 and 0 <= extra < 2097152 and 0 <= lead_empty <= 2 and 0 <= pad < 256
    post: _
    """
    # O = length of the options message, extra = bytes of the first frame after its first row,
    # lead_empty = number of empty frames before it (delimited only), pad = some byte following (don't care)
    try:
        with notrace():
            check_varint_model()
        row = [0x0A] + varint(O)            # options row: tag(field 1, LEN) + length (+ O bytes of content)
        L1 = len(row) + O
        frame_head = [0x0A] + varint(L1) + row   # frame: tag(rows, LEN) + row length + row ...
        F = 1 + len(varint(L1)) + L1 + extra
        if delimited:
            header = [0] * lead_empty + varint(F) + frame_head
        else:
            header = frame_head
        header = (header + [pad, pad, pad])[:3] if O == 0 and not delimited else header[:3]
        got = delimited_jelly_hint(header)
        ok = got == delimited
        if P.get("twin"):
            ok = False
    except Exception:  # noqa: BLE001
        ok = False
    return fin(M, ok, delimited=delimited, O=O, extra=extra, lead_empty=lead_empty, pad=pad)


def framing_is(data, delimited):
    """the bytes really ARE in the requested mode: length-prefixed frames, resp. one bare frame (read by the reference)"""
    from vpkg.ref import jelly as R
    try:
        R.decode(data, delimited=delimited)
        return True
    except Exception:  # noqa: BLE001
        return False


ITEMS = {1: [("T", alpha.I_AX, alpha.I_AY, alpha.L_DT1), ("T", alpha.I_AX, alpha.I_URN, alpha.L_LANG)],
         2: [("Q", alpha.I_AX, alpha.I_AY, alpha.L_DT1, alpha.DEF), ("Q", alpha.I_AX, alpha.I_URN, alpha.L_LANG, alpha.B1)]}


def pair(namelen: int, k: int, gen: bool, star: bool) -> bool:
    """
    pre: 0 <= namelen <= P["maxname"] and 1 <= k <= 2
    post: _
    """
    # stream name length chosen so that the options row sweeps 8..12+ bytes (the 0x0A coincidences)
    integ, phys = P["integ"], P["phys"]
    try:
        name = ""
        for i in range(P["maxname"] + 1):
            if namelen == i:
                name = "n" * i
        items = ITEMS[phys][:1] if k == 1 else ITEMS[phys]
        want = [norm_item(i) for i in items]
        res = []
        modes_ok = []
        for delim in (True, False):
            opts = pj.make_options(phys, delimited=delim, stream_name=name, names=P["names"], prefixes=P["prefixes"], datatypes=P["datatypes"],
                                   generalized=bool(gen), rdf_star=bool(star))
            if integ == "generic":
                data = pj.gen_serialize(items, phys, opts, entry="flat_frames")
                with notrace():
                    modes_ok.append(framing_is(bytes(data), delim))
                    res.append([norm_item(i) for i in pj.gen_parse(bytes(data))])
            else:
                data = pj.rdf_serialize(items, phys, opts, entry=P.get("rentry", "graph_serialize"))
                with notrace():
                    modes_ok.append(framing_is(bytes(data), delim))
                    res.append(sorted(norm_item(i) for i in pj.rdf_parse(bytes(data), entry="to_graph")))
                want = sorted(want)
        ok = res[0] == want and res[1] == want and all(modes_ok)
        if P.get("twin"):
            ok = False
    except Exception:  # noqa: BLE001
        ok = False
    return fin(M, ok, namelen=namelen, k=k, gen=gen, star=star)


BOUNDS = [127, 128, 129, 16383, 16384, 16385]


def base_frame_len(integ, phys, delim):
    """length of the first (only) frame when the stream name is empty"""
    opts = pj.make_options(phys, delimited=True, stream_name="", generalized=integ == "generic", rdf_star=integ == "generic")
    data = pj.gen_serialize(ITEMS[phys][:1], phys, opts, entry="flat_frames") if integ == "generic" else pj.rdf_serialize(ITEMS[phys][:1], phys, opts, entry="graph_serialize")
    from vpkg.ref import wire
    ln, p2 = wire.dec_varint(bytes(data), 0)
    return ln


def name_len_for(integ, phys, target):
    """stream-name length that makes the first delimited frame exactly `target` bytes long (None if unreachable)"""
    from vpkg.ref import wire
    L = max(target - base_frame_len(integ, phys, True), 1)
    for _ in range(6):
        opts = pj.make_options(phys, delimited=True, stream_name="n" * L, generalized=integ == "generic", rdf_star=integ == "generic")
        data = pj.gen_serialize(ITEMS[phys][:1], phys, opts, entry="flat_frames") if integ == "generic" else pj.rdf_serialize(ITEMS[phys][:1], phys, opts, entry="graph_serialize")
        ln = wire.dec_varint(bytes(data), 0)[0]
        if ln == target:
            return L
        L = max(L + (target - ln), 1)
    return None


def boundary(b: int, adj: int) -> bool:
    """
    pre: 0 <= b < 6 and adj == 0
    post: _
    """
    # the stream name is sized so that the FRAME length is exactly 127, 128, 129, 16383, 16384 or 16385 (varint boundaries)
    integ, phys = P["integ"], P["phys"]
    try:
        target = alpha.pick(b, BOUNDS)
        with notrace():
            L = name_len_for(integ, phys, target)
        if L is None:
            return fin(M, False, b=b, adj=adj)   # no stream name yields a frame of that length: the length prefix itself is off
        name = "n" * L
        want = [norm_item(i) for i in ITEMS[phys][:1]]
        ok = True
        for delim in (True, False):
            opts = pj.make_options(phys, delimited=delim, stream_name=name, generalized=integ == "generic", rdf_star=integ == "generic")
            if integ == "generic":
                data = pj.gen_serialize(ITEMS[phys][:1], phys, opts, entry="flat_frames")
            else:
                data = pj.rdf_serialize(ITEMS[phys][:1], phys, opts, entry="graph_serialize")
            with notrace():
                data = bytes(data)
                ok = ok and framing_is(data, delim)
                if delim:
                    from vpkg.ref import wire as _w
                    ok = ok and _w.dec_varint(data, 0)[0] == target
                got = pj.gen_parse(data) if integ == "generic" else pj.rdf_parse(data, entry="to_graph", quads=phys != 1)
                ok = ok and sorted(map(repr, (norm_item(i) for i in got))) == sorted(map(repr, want))
        if P.get("twin"):
            ok = False
    except Exception:  # noqa: BLE001
        ok = False
    return fin(M, ok, b=b, adj=adj)
