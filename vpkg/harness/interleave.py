"""H-INTERLEAVE (C12, reduced scope): independent workloads advanced one generator step at a time under a
symbolic schedule, after a symbolic history of created-and-abandoned streams."""
from __future__ import annotations

import io
from typing import List

from vpkg import alpha, pj
from vpkg.hutil import fin, notrace
from vpkg.terms import norm_item

P: dict = {}
CEX = None
M = __name__

WL = {
    "A": dict(phys=1, items=[("T", alpha.I_AX, alpha.I_AY, alpha.L_DT1), ("T", alpha.I_AX, alpha.I_BX, alpha.L_LANG), ("T", alpha.B1, alpha.I_BX, alpha.I_AX)], pf=4, dt=2),
    "B": dict(phys=2, items=[("Q", alpha.I_BX, alpha.I_AY, alpha.L_DT2, alpha.DEF), ("Q", alpha.I_BX, alpha.I_URN, alpha.L_DT1, alpha.I_AX), ("Q", alpha.I_CZ, alpha.I_URN, alpha.L_PLAIN, alpha.I_AX)], pf=0, dt=3),
    "C": dict(phys=1, items=[("T", alpha.I_CZ, alpha.I_AY, alpha.L_XSD), ("T", alpha.I_CZ, alpha.I_AY, alpha.L_XSD), ("T", alpha.I_AX, alpha.I_AY, alpha.L_DT1)], pf=8, dt=8),
}


WL["D"] = dict(WL["A"], default_preset=True)
WL["E"] = dict(WL["C"], default_preset=True)
HOOK = {}


def ser_gen(integ, w):
    """generator: one serialized frame (bytes) per step"""
    spec = WL[w]
    if spec.get("default_preset"):
        # the library's default table sizes (4000 / 150 / 32)
        opts = pj.make_options(spec["phys"], frame_size=1, names=4000, prefixes=150, datatypes=32, generalized=False, rdf_star=False)
    else:
        opts = pj.make_options(spec["phys"], frame_size=1, prefixes=spec["pf"], datatypes=spec["dt"], generalized=False, rdf_star=False)
    if integ == "generic":
        from pyjelly.integrations.generic.serialize import flat_stream_to_frames
        conv = pj.terms.item_to_generic
    else:
        from pyjelly.integrations.rdflib.serialize import flat_stream_to_frames
        conv = pj.rdf_item
    for fr in flat_stream_to_frames((conv(i) for i in spec["items"]), opts):
        yield pj.write_frames([fr], True)


GRAPH_WL = {
    "G1": [(alpha.I_AX, [WL["A"]["items"][0][1:4], WL["A"]["items"][1][1:4]]), (alpha.DEF, [WL["A"]["items"][2][1:4]])],
    "G2": [(alpha.B1, [WL["C"]["items"][0][1:4]]), (alpha.I_CZ, [WL["C"]["items"][2][1:4], WL["A"]["items"][1][1:4]])],
}


def graphs_bytes(w):
    """a GRAPHS-physical stream (identical stream options for every workload), one frame per row group"""
    opts = pj.make_options(3, frame_size=2, prefixes=4, datatypes=4, generalized=False, rdf_star=False)
    stream = pj.gen_stream(3, opts)
    stream.enroll()
    frames = []
    for g, ts in GRAPH_WL[w]:
        frames += list(stream.graph(pj.terms.to_generic(g), [tuple(pj.terms.to_generic(x) for x in t) for t in ts]))
    tail = stream.flow.to_stream_frame()
    return pj.write_frames(frames + ([tail] if tail is not None else []), True)


def parse_gen(integ, w):
    """generator: one parsed item per step (bytes prepared natively)"""
    with notrace():
        data = graphs_bytes(w) if w in GRAPH_WL else b"".join(ser_gen("generic", w))
    if integ == "generic":
        from pyjelly.integrations.generic.parse import parse_jelly_flat
        for x in parse_jelly_flat(io.BytesIO(data)):
            yield norm_item(pj.terms.item_from_generic(x))
    else:
        from pyjelly.integrations.rdflib.parse import parse_jelly_flat
        for x in parse_jelly_flat(io.BytesIO(data)):
            yield norm_item(pj.terms.item_from_rdflib(x))


_SHARED = {}


def stream_gen(integ, w, shared, lazy=False):
    """generator at STATEMENT granularity on the Stream API: yields after every stream.triple()/quad() call.
    With shared=True every workload is built from ONE SerializerOptions object (a module-level constant, as users do)."""
    spec = WL[w]
    phys = spec["phys"]
    if shared:
        key = (integ, phys)
        if key not in _SHARED:
            _SHARED[key] = pj.make_options(phys, frame_size=4, prefixes=4, datatypes=4, generalized=False, rdf_star=False)
        opts = _SHARED[key]
    else:
        opts = pj.make_options(phys, frame_size=4, prefixes=spec["pf"], datatypes=spec["dt"], generalized=False, rdf_star=False)
    stream = pj.gen_stream(phys, opts) if integ == "generic" else pj.PHYS_STREAM[phys].for_rdflib(opts)
    conv = pj.terms.item_to_generic if integ == "generic" else pj.rdf_item
    stream.enroll()
    for n_it, it in enumerate(spec["items"]):
        terms = conv(it)
        if lazy:
            # lazily produced terms: between two terms of ONE statement the other workload may be advanced (re-entrancy)
            def gen(ts=tuple(terms), k=n_it):
                for j, t in enumerate(ts):
                    if j == 1 and HOOK.get((w, k)):
                        HOOK.pop((w, k))()
                    yield t
            terms = gen()
        fr = (stream.triple if phys == 1 else stream.quad)(terms)
        yield pj.write_frames([fr], True) if fr is not None else b""
    fr = stream.flow.to_stream_frame()
    yield pj.write_frames([fr], True) if fr is not None else b""


def dsflow_gen(integ, w):
    """QuadStream configured through an explicit DatasetsFrameFlow() (class-level default logical type)"""
    from pyjelly.serialize.flows import DatasetsFrameFlow
    spec = WL["B"]
    opts = pj.make_options(2, flow=DatasetsFrameFlow(), prefixes=4, datatypes=4, generalized=False, rdf_star=False)
    stream = pj.gen_stream(2, opts) if integ == "generic" else pj.PHYS_STREAM[2].for_rdflib(opts)
    conv = pj.terms.item_to_generic if integ == "generic" else pj.rdf_item
    stream.enroll()
    for it in spec["items"]:
        stream.quad(conv(it))
        yield b""
    fr = stream.flow.frame_from_dataset()
    yield pj.write_frames([fr], True) if fr is not None else b""


def make(kind, integ, w):
    if kind == "stream":
        return stream_gen(integ, w, False)
    if kind == "sstream":
        return stream_gen(integ, w, True)
    if kind == "lstream":
        return stream_gen(integ, w, False, lazy=True)
    if kind == "dsflow":
        return dsflow_gen(integ, w)
    return ser_gen(integ, w) if kind == "ser" else parse_gen(integ, w)


def history(h, integ):
    """streams created and abandoned before the workloads start"""
    if h >= 1:
        g = ser_gen(integ, "C")
        next(g)          # started, one frame taken, never finished
        # a stream created earlier with a logical SUB-type (NAMED_GRAPHS) and abandoned
        o14 = pj.make_options(2, logical=14, generalized=False, rdf_star=False)
        (pj.gen_stream(2, o14) if integ == "generic" else pj.PHYS_STREAM[2].for_rdflib(o14))
    if h >= 2:
        opts = pj.make_options(1, frame_size=10, datatypes=0)
        stream = pj.gen_stream(1, opts) if integ == "generic" else pj.PHYS_STREAM[1].for_rdflib(opts)
        stream.enroll()
        conv = pj.terms.item_to_generic if integ == "generic" else pj.rdf_item
        try:
            stream.triple(conv(("T", alpha.I_AX, alpha.I_AY, alpha.L_DT1)))  # raises mid-statement (datatype table disabled)
        except Exception:  # noqa: BLE001
            pass


def interleave(sched: List[bool], h: int) -> bool:
    """
    pre: len(sched) == P["steps"] and 0 <= h <= 2 and (P.get("h") is None or h == P["h"])
    pre: all(sched[i] == v for i, v in enumerate(P.get("fixsched", [])))
    post: _
    """
    integ = P["integ"]
    ws = P["workloads"]  # e.g. [["ser","A"],["ser","B"]] or [["ser","A"],["parse","B"]]
    try:
        _SHARED.clear()
        with notrace():
            solo = [list(make(k, integ, w)) for k, w in ws]
            solo2 = [list(make(k, integ, w)) for k, w in ws]
            det = solo == solo2   # same workload twice in one process: identical
        hv = alpha.pick(h, [0, 1, 2])
        history(hv, integ)
        gens = [make(k, integ, w) for k, w in ws]
        outs = [[] for _ in ws]
        HOOK.clear()
        if ws[0][0] == "lstream" and len(ws) == 2:
            # in the middle of workload 0's second statement, workload 1 is advanced by one step
            def hook():
                try:
                    outs[1].append(next(gens[1]))
                except StopIteration:
                    pass
            HOOK[(ws[0][1], 1)] = hook
        alive = [True] * len(ws)
        for step in sched:
            i = 0 if step else 1
            if len(ws) == 3 and not alive[i]:
                i = 2
            if not alive[i]:
                i = [j for j in range(len(ws)) if alive[j]][0] if any(alive) else None
            if i is None:
                break
            try:
                outs[i].append(next(gens[i]))
            except StopIteration:
                alive[i] = False
        for i, g in enumerate(gens):
            for x in g:
                outs[i].append(x)
        ok = det and outs == solo
        if P.get("twin"):
            ok = False
    except Exception:  # noqa: BLE001
        ok = False
    return fin(M, ok, sched=sched, h=h)


def probe():
    st = pj.gen_stream(1, pj.make_options(1))
    st.flow, st.enroll, st.flow.to_stream_frame  # noqa: B018
    len(st.flow)
