"""H-IO-SCHED (C09): parsing over sources that chunk their reads arbitrarily.
H-CUT (C10): delimited stream truncated at a symbolic byte offset."""
from __future__ import annotations

import gzip
import io
import os
import tempfile
from typing import List

from vpkg import pj
from vpkg.harness.flow import make_stream
from vpkg.hutil import fin, notrace
from vpkg.terms import norm_item

P: dict = {}
CEX = None
M = __name__


class Hang(Exception):
    """the parser keeps asking an exhausted source for more bytes: it would spin forever on a real one"""


class ChunkedSource(io.RawIOBase):
    """Non-seekable raw source; the i-th read returns at most sizes[i] bytes (later reads: unlimited)."""

    def __init__(self, data: bytes, sizes):
        super().__init__()
        self.data, self.sizes, self.pos, self.calls, self.eof_calls = data, sizes, 0, 0, 0

    def readable(self):
        return True

    def seekable(self):
        return False

    def readinto(self, b):
        want = len(b)
        remaining = len(self.data) - self.pos
        if remaining == 0:
            self.eof_calls += 1
            if self.eof_calls > 200:
                raise Hang
        n = min(want, remaining)
        if self.calls < len(self.sizes):
            n = min(n, self.sizes[self.calls])
        self.calls += 1
        b[:n] = self.data[self.pos:self.pos + n]
        self.pos += n
        return n


def parse_items(inp):
    integ = P["integ"]
    if integ == "generic":
        from pyjelly.integrations.generic.parse import parse_jelly_flat
        return [norm_item(pj.terms.item_from_generic(x)) for x in parse_jelly_flat(inp)]
    from pyjelly.integrations.rdflib.parse import parse_jelly_flat
    return [norm_item(pj.terms.item_from_rdflib(x)) for x in parse_jelly_flat(inp)]


def baseline(data):
    with notrace():
        return parse_items(io.BytesIO(data))


def stream_bytes():
    with notrace():
        data, bounds, per = make_stream(P["integ"], P["phys"], P["K"], P["fs"], P.get("lead_empty", False))
        if not P.get("delimited", True):
            items = [i for f in per for i in f]
            opts = pj.make_options(P["phys"], delimited=False, generalized=P["integ"] == "generic", rdf_star=P["integ"] == "generic")
            from vpkg.harness import flow
            src = (flow.ITEMS_T if P["phys"] == 1 else flow.ITEMS_Q)[:P["K"]]
            ser = pj.gen_serialize if P["integ"] == "generic" else pj.rdf_serialize
            data = ser(src, P["phys"], opts, entry="flat_frames")
        return bytes(data)


def pin(v, hi):
    """Pin a symbolic size that is going to be realised at the first slice anyway: one path per value in
    1..hi-1, one path for every value >= hi (represented by hi)."""
    for c in range(1, hi):
        if v == c:
            return c
    return hi


def small_or_unlimited(s) -> bool:
    return (1 <= s) & ((s <= 4) | (s >= P["len"]))


def sched(s1: int, s2: int, s3: int) -> bool:
    """
    pre: small_or_unlimited(s1) and small_or_unlimited(s2) and small_or_unlimited(s3)
    post: _
    """
    # first three raw reads return at most s1, s2, s3 bytes (each 1..4, or unlimited); later reads unlimited
    try:
        data = stream_bytes()
        want = baseline(data)
        lim = [s1, s2, s3]
        for i in range(3):
            lim[i] = len(data) if pin(lim[i], 5) == 5 else pin(lim[i], 5)
        got = parse_items(ChunkedSource(data, lim))
        ok = got == want
        if P.get("twin"):
            ok = False
    except Exception:  # noqa: BLE001
        ok = False
    return fin(M, ok, s1=s1, s2=s2, s3=s3)


def sched1(s1: int) -> bool:
    """
    pre: s1 >= 1
    post: _
    """
    # the first raw read returns at most s1 bytes: every value (path per value below len, one path above)
    try:
        data = stream_bytes()
        want = baseline(data)
        got = parse_items(ChunkedSource(data, [pin(s1, len(data))]))
        ok = got == want
        if P.get("twin"):
            ok = False
    except Exception:  # noqa: BLE001
        ok = False
    return fin(M, ok, s1=s1)


def sched_all(s: int) -> bool:
    """
    pre: s >= 1
    post: _
    """
    # every read of the whole stream is limited to s bytes
    try:
        data = stream_bytes()
        want = baseline(data)
        got = parse_items(ChunkedSource(data, [pin(s, len(data))] * (len(data) + 8)))
        ok = got == want
        if P.get("twin"):
            ok = False
    except Exception:  # noqa: BLE001
        ok = False
    return fin(M, ok, s=s)


def seekable(kind: int, bufsize: int, off: int) -> bool:
    """
    pre: 0 <= kind < 4 and 0 <= bufsize < 5 and 0 <= off <= 3
    post: _
    """
    # buffered seekable sources as the documented input contract requires
    try:
        from vpkg import alpha as _alpha
        kind = _alpha.pick(kind, [0, 1, 2, 3])
        bufsize = _alpha.pick(bufsize, [1, 2, 3, 8, 64])
        off = _alpha.pick(off, [0, 1, 2, 3])
        data = stream_bytes()
        want = baseline(data)
        with notrace():
            d = tempfile.mkdtemp(prefix="vpio")
            path = os.path.join(d, "s.jelly")
            k, bs, of = int(kind), int(bufsize), int(off)
            junk = b"\x7fJNK"[:of]     # a container preamble the caller has already consumed: the source is positioned at `off`
            data0, data = data, junk + data
            try:
                if k == 0:
                    inp = io.BytesIO(data)
                elif k == 1:
                    open(path, "wb").write(data)
                    inp = open(path, "rb", buffering=bs if bs > 1 else 2)
                elif k == 2:
                    with gzip.open(path, "wb") as f:
                        f.write(data)
                    inp = gzip.open(path, "rb")
                else:
                    open(path, "wb").write(data)
                    inp = io.BufferedReader(io.FileIO(path, "rb"), buffer_size=bs + 2)
                if of:
                    inp.seek(of) if k != 2 else inp.read(of)
                got = parse_items(inp)
                inp.close()
            finally:
                for f in os.listdir(d):
                    os.unlink(os.path.join(d, f))
                os.rmdir(d)
        ok = got == want
        if P.get("twin"):
            ok = False
    except Exception:  # noqa: BLE001
        ok = False
    return fin(M, ok, kind=kind, bufsize=bufsize, off=off)


# ------------------------------------------------------------------------------------------
def cut(k: int) -> bool:
    """
    pre: P.get("lo", 0) <= k <= P.get("hi", P["len"])
    post: _
    """
    try:
        k = pin(k, P["len"] + 1) if P.get("lo", 0) > 0 else k
        with notrace():
            data, bounds, per = make_stream(P["integ"], P["phys"], P["K"], P["fs"], P.get("lead_empty", False), P.get("mid_empty", False), P.get("long", False))
        full = [i for f in per for i in f]
        got = []
        hung = False
        try:
            if P.get("source") == "drop":
                # non-seekable source whose connection is reset after k bytes (an exception from read(), not EOF)
                from vpkg.harness.flow import StallSource
                inp = StallSource(data, k, P["len"] + 1)
            elif P.get("source") == "chunked":
                # non-seekable raw source: first reads one byte each, every later read at most 7 bytes, plain EOF at the cut
                inp = ChunkedSource(data[:k], [1, 1, 1] + [7] * (len(data) + 8))
            else:
                inp = io.BytesIO(data[:k])
            if P["integ"] == "generic":
                from pyjelly.integrations.generic.parse import parse_jelly_flat
                for x in parse_jelly_flat(inp):
                    got.append(norm_item(pj.terms.item_from_generic(x)))
            else:
                from pyjelly.integrations.rdflib.parse import parse_jelly_flat
                for x in parse_jelly_flat(inp):
                    got.append(norm_item(pj.terms.item_from_rdflib(x)))
        except Hang:
            hung = True       # neither ended nor raised: keeps asking an exhausted source for bytes
        except Exception:  # noqa: BLE001
            pass
        with notrace():
            kk = int(k)
            due = [it for b, its in zip(bounds, per) if b <= kk for it in its]
            ok = got == full[:len(got)] and len(got) >= len(due) and not hung
        if P.get("twin"):
            ok = False
    except Exception:  # noqa: BLE001
        ok = False
    return fin(M, ok, k=k)
