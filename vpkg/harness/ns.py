"""C14: namespace declarations round-trip and never affect statements."""
from __future__ import annotations

from typing import List

from vpkg import alpha, pj
from vpkg.hutil import fin, notrace
from vpkg.ref import jelly as R
from vpkg.terms import norm_item

P: dict = {}
CEX = None
M = __name__

LABELS = ["", "ex", "ż"]
# namespaces that rdflib binds by default (dcterms, schema, ...) are deliberately absent: a fresh reading Graph keeps its own
# prefix for them (rdflib's lazy default bindings), which is rdflib's behaviour, not pyjelly's (measured, see DESIGN.md)
NSIRIS = ["http://a/", "http://b#", "urn:q", "http://ü/ż#", ""]
ITEMS = {1: [("T", alpha.I_AX, alpha.I_AY, alpha.L_DT1), ("T", alpha.I_BX, alpha.I_URN, alpha.I_CZ)],
         2: [("Q", alpha.I_AX, alpha.I_AY, alpha.L_DT1, alpha.DEF), ("Q", alpha.I_BX, alpha.I_URN, alpha.I_CZ, alpha.I_AX)]}
ITEMS[3] = ITEMS[2]


def ns(l1: int, i1: int, l2: int, i2: int, nb: int, fs: int) -> bool:
    """
    pre: 0 <= l1 < 3 and 0 <= l2 < 3 and 0 <= i1 < 5 and 0 <= i2 < 5 and 0 <= nb <= 3 and fs >= 1
    pre: (l1 != l2 or nb < 2) and nb == P["nb"] and (P["nb"] >= 2 or (l2 == 0 and i2 == 0)) and (P["nb"] >= 1 or (l1 == 0 and i1 == 0))
    pre: P["nb"] < 3 or (l1 == 1 and l2 == 2)
    pre: P.get("fix1") is None or (l1 == P["fix1"][0] and i1 == P["fix1"][1])
    pre: P.get("fixl") is None or l1 == P["fixl"]
    post: _
    """
    integ, phys = P["integ"], P["phys"]
    try:
        binds = [(alpha.pick(l1, LABELS), alpha.pick(i1, NSIRIS)), (alpha.pick(l2, LABELS), alpha.pick(i2, NSIRIS))]
        nbv = alpha.pick(nb, [0, 1, 2, 3])
        binds = binds[:min(nbv, 2)]
        if nbv == 3:
            binds.append(("", binds[0][1]))   # a third label bound to the FIRST namespace again (its parts are already in the tables)
        items = ITEMS[phys]
        if P.get("aname0"):
            # first statement IRI = a declared namespace itself (empty local name): zero deltas right after the declarations
            items = [(items[0][0], alpha.I_ANAME0) + tuple(items[0][2:])] + list(items[1:])
        want = [norm_item(i) for i in items]
        res = {}
        for on in (True, False):
            opts = pj.make_options(phys, frame_size=fs, ns=on, names=P["names"], prefixes=P["prefixes"], datatypes=P["datatypes"],
                                   generalized=integ == "generic", rdf_star=integ == "generic", version=P.get("explicit_version"))
            if integ == "generic":
                data = pj.gen_serialize(items, phys, opts, entry=P["entry"], bindings=binds)
            else:
                data = pj.rdf_serialize(items, phys, opts, entry=P["entry"], bindings=binds)
            with notrace():
                data = bytes(data)
                ritems, ropt, _ = R.decode(data)
                if integ == "generic":
                    got = [norm_item(i) for i in pj.gen_parse(data, entry=P["pentry"])]
                else:
                    got = [norm_item(i) for i in pj.rdf_parse(data, entry=P["pentry"], quads=phys != 1)]
            res[on] = (data, ritems, ropt, got)
        ok = True
        # option off: no declaration written (reference audit), version 1
        data, ritems, ropt, got = res[False]
        ok = ok and not [i for i in ritems if i[0] == "NS"] and ropt["version"] == 1
        stm_off = [i for i in got if i[0] != "NS"]
        # option on: same (label, IRI) pairs in order, version 2
        data, ritems, ropt, got = res[True]
        exp = expected_bindings(integ, binds)
        ok = ok and [i for i in ritems if i[0] == "NS"] == exp and ropt["version"] == 2
        if P["pentry"] == "flat":
            ok = ok and [i for i in got if i[0] == "NS"] == exp
        stm_on = [i for i in got if i[0] != "NS"]
        cmp = (lambda a: sorted(map(repr, set(a)))) if P.get("setcmp") else (lambda a: a)
        ok = ok and cmp(stm_on) == cmp(want) and cmp(stm_off) == cmp(want)
        # re-serialising what was read reproduces the same declarations
        if P.get("reser"):
            with notrace():
                back = reserialize(integ, phys, data)
            ok = ok and [i for i in back if i[0] == "NS"] == exp
        # isolation between sinks: a default-constructed sink nobody bound anything on carries no declarations
        if integ == "generic" and binds:
            with notrace():
                opts2 = pj.make_options(phys, ns=True, names=P["names"], prefixes=P["prefixes"], datatypes=P["datatypes"])
                from pyjelly.integrations.generic import serialize as gs
                d2 = pj.write_frames(gs.stream_frames(pj.gen_stream(phys, opts2), pj.gen_sink(items)), True)
                ok = ok and not [i for i in R.decode(bytes(d2))[0] if i[0] == "NS"]
        if P.get("twin"):
            ok = False
    except Exception:  # noqa: BLE001
        ok = False
    return fin(M, ok, l1=l1, i1=i1, l2=l2, i2=i2, nb=nb, fs=fs)


def ns_grouped(i1: int, i2: int, same_label: bool) -> bool:
    """
    pre: 0 <= i1 < 5 and 0 <= i2 < 5
    post: _
    """
    # two sinks/graphs written through ONE stream (grouped serialisation); the second re-binds a label of the first
    integ, phys = P["integ"], 1
    try:
        a, b = alpha.pick(i1, NSIRIS), alpha.pick(i2, NSIRIS)
        lab2 = "ex" if same_label else "ey"
        items = ITEMS[1]
        opts = pj.make_options(1, logical=3, ns=True, prefixes=4, datatypes=2, generalized=integ == "generic", rdf_star=integ == "generic")
        if integ == "generic":
            from pyjelly.integrations.generic import serialize as gs
            sinks = [pj.gen_sink(items[:1], [("ex", a)]), pj.gen_sink(items[1:], [(lab2, b)])]
            frames = list(gs.grouped_stream_to_frames((s for s in sinks), opts))
        else:
            from pyjelly.integrations.rdflib import serialize as rs
            with notrace():
                sinks = [pj.rdf_store(items[:1], [("ex", a)]), pj.rdf_store(items[1:], [(lab2, b)])]
            frames = list(rs.grouped_stream_to_frames((s for s in sinks), opts))
        with notrace():
            dec = R.RefDecoder()
            per = []
            for f in frames:
                before = len(dec.items)
                dec.frame(f.SerializeToString())
                per.append(dec.items[before:])
            carrying = [p for p in per if any(i[0] == "T" for i in p)]
            ok = len(carrying) == 2 and ("NS", "ex", a) in carrying[0] and ("NS", lab2, b) in carrying[1]
        if P.get("twin"):
            ok = False
    except Exception:  # noqa: BLE001
        ok = False
    return fin(M, ok, i1=i1, i2=i2, same_label=same_label)


def expected_bindings(integ, binds):
    if integ == "generic":
        d = {}
        for k, v in binds:
            d[k] = v
        return [("NS", k, v) for k, v in d.items()]
    # rdflib: the store's own namespace manager decides what is bound (defaults included): ask it
    import rdflib
    g = rdflib.Graph()
    for k, v in binds:
        g.bind(k, rdflib.URIRef(v), override=True, replace=True)
    return [("NS", str(k), str(v)) for k, v in g.namespaces()]


def reserialize(integ, phys, data):
    """parse into a sink/graph with the real API, serialise that again with declarations on, read the NS rows"""
    import io
    if integ == "generic":
        from pyjelly.integrations.generic.generic_sink import GenericStatementSink
        sink = GenericStatementSink()
        sink.parse(io.BytesIO(data))
        opts = pj.make_options(phys, ns=True)
        from pyjelly.integrations.generic import serialize as gs
        out = pj.write_frames(gs.stream_frames(pj.gen_stream(phys, opts), sink), True)
    else:
        import rdflib
        g = rdflib.Dataset() if phys != 1 else rdflib.Graph()
        g.parse(io.BytesIO(data), format="jelly")
        opts = pj.make_options(phys, ns=True, generalized=False, rdf_star=False)
        out = io.BytesIO()
        g.serialize(out, format="jelly", options=opts, stream=pj.PHYS_STREAM[phys].for_rdflib(opts))
        out = out.getvalue()
    return R.decode(out)[0]
