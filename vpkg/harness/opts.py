"""L-OPT (C13): header fidelity, stream-type validation, table-size limits, strictness gates."""
from __future__ import annotations

import io

from pyjelly import jelly
from pyjelly.options import LookupPreset, StreamTypes
from pyjelly.parse.ioutils import get_options_and_frames
from pyjelly.parse.lookup import LookupDecoder

from vpkg import alpha, pj
from vpkg.hutil import fin, notrace
from vpkg.ref import jelly as R
from vpkg.ref import wire
from vpkg.terms import norm_item

P: dict = {}
CEX = None
M = __name__

LOGICAL = [0, 1, 2, 3, 4, 13, 14, 114]
NAMES = ["", "n", "żółć𝄞", "0123456789", "a b\n\x00c"]
SZ_NAMES = [8, 9, 4095, 4096]
SZ_PRE = [0, 1, 7, 8, 4096]
SZ_DT = [0, 1, 32, 4096]
ITEM = {1: ("T", alpha.I_AX, alpha.I_AY, alpha.L_PLAIN), 2: ("Q", alpha.I_AX, alpha.I_AY, alpha.L_PLAIN, alpha.DEF)}
ITEM[3] = ITEM[2]


def hdr(lt: int, delim: bool, ns: bool, gen: bool, star: bool, name: int, a: int, b: int, c: int, ver: int) -> bool:
    """
    pre: 0 <= lt < 8 and 0 <= name < 5 and 0 <= a < 4 and 0 <= b < 5 and 0 <= c < 4 and 0 <= ver <= 2
    pre: (lt == P["lt"] or P["lt"] < 0) and (name == P["name"] or P["name"] < 0) and ((a == 0 and b == 3 and c == 2) or P["sizes"])
    pre: (not P["sizes"]) or (delim and not gen and not star and ver == 0)
    post: _
    """
    phys, integ = P["phys"], P["integ"]
    try:
        ltv = alpha.pick(lt, LOGICAL)
        sn = alpha.pick(name, NAMES)
        nm, pf, dt = alpha.pick(a, SZ_NAMES), alpha.pick(b, SZ_PRE), alpha.pick(c, SZ_DT)
        try:
            vv = alpha.pick(ver, [None, 1, 2])   # the caller may pass a version explicitly: the header must not follow it
            opts = pj.make_options(phys, delimited=bool(delim), logical=ltv, ns=bool(ns), stream_name=sn, names=nm, prefixes=pf,
                                   datatypes=dt, generalized=bool(gen), rdf_star=bool(star), version=vv)
            if integ == "generic":
                data = pj.gen_serialize([ITEM[phys]], phys, opts, entry="stream_frames_sink")
            else:
                data = pj.rdf_serialize([ITEM[phys]], phys, opts, entry="graph_serialize")
        except Exception:  # noqa: BLE001
            # refused on the writer side: must be exactly the forbidden physical/logical pairs
            return fin(M, (not R.types_compatible(phys, ltv)) and not P.get("twin"), lt=lt, delim=delim, ns=ns, gen=gen, star=star, name=name, a=a, b=b, c=c, ver=ver)
        ok = R.types_compatible(phys, ltv)
        po, frames = get_options_and_frames(io.BytesIO(data))
        with notrace():
            _, ro, _ = R.decode(bytes(data))   # what an independent reader is told
        flow_lt = ltv if ltv else (1 if phys == 1 else 2) if delim else ltv
        ok = ok and po.stream_types.physical_type == phys == ro["physical_type"]
        ok = ok and po.stream_types.logical_type == ro["logical_type"]
        ok = ok and (ro["logical_type"] == ltv or (ltv == 0 and ro["logical_type"] in (0, 1, 2)))
        ok = ok and po.lookup_preset.max_names == nm == ro["max_name_table_size"]
        ok = ok and po.lookup_preset.max_prefixes == pf == ro["max_prefix_table_size"]
        ok = ok and po.lookup_preset.max_datatypes == dt == ro["max_datatype_table_size"]
        ok = ok and po.params.stream_name == sn == ro["stream_name"]
        ok = ok and po.params.generalized_statements == bool(gen) == bool(ro["generalized_statements"])
        ok = ok and po.params.rdf_star == bool(star) == bool(ro["rdf_star"])
        ok = ok and ro["version"] == (2 if ns else 1) and po.params.version == ro["version"]
        ok = ok and po.params.delimited == bool(delim)
        ok = ok and po.params.namespace_declarations == bool(ns)
        # the reader's three tables are sized from the matching header fields (internal attributes: skipped if renamed)
        try:
            from pyjelly.parse.decode import Decoder
            from pyjelly.integrations.generic.parse import GenericTriplesAdapter
            d = Decoder(adapter=GenericTriplesAdapter(po))
            ok = ok and d.names.lookup_size == nm and d.prefixes.lookup_size == pf and d.datatypes.lookup_size == dt
        except AttributeError:
            pass
        if P.get("twin"):
            ok = False
    except Exception:  # noqa: BLE001
        ok = False
    return fin(M, ok, lt=lt, delim=delim, ns=ns, gen=gen, star=star, name=name, a=a, b=b, c=c, ver=ver)


BIG = [4097, 5000, 70000]


def hdr_big(which: int, size: int) -> bool:
    """
    pre: 0 <= which < 3 and 0 <= size < 3
    post: _
    """
    # a writer configured with a table larger than the reader-side maximum: the header must still carry exactly the
    # configured size (so that readers refuse the stream), and pyjelly's own parser must refuse it
    phys, integ = P["phys"], P["integ"]
    try:
        sz = alpha.pick(size, BIG)
        w = alpha.pick(which, [0, 1, 2])
        sizes = [8, 8, 8]
        sizes[w] = sz
        opts = pj.make_options(phys, names=sizes[0], prefixes=sizes[1], datatypes=sizes[2], generalized=integ == "generic", rdf_star=integ == "generic")
        if integ == "generic":
            data = pj.gen_serialize([ITEM[phys]], phys, opts, entry="stream_frames_sink")
        else:
            data = pj.rdf_serialize([ITEM[phys]], phys, opts, entry="graph_serialize")
        with notrace():
            frames = wire.split_delimited(bytes(data))
            rows, _ = wire.dec_frame(frames[0])
            ro = rows[0][1]
        ok = rows[0][0] == "options" and [ro["max_name_table_size"], ro["max_prefix_table_size"], ro["max_datatype_table_size"]] == sizes
        try:
            pj.gen_parse(data) if integ == "generic" else pj.rdf_parse(data)
            ok = False
        except Exception:  # noqa: BLE001
            pass
        if P.get("twin"):
            ok = False
    except Exception:  # noqa: BLE001
        ok = False
    return fin(M, ok, which=which, size=size)


def hdr_reuse(lt1: int, lt2: int, second_phys: int) -> bool:
    """
    pre: 0 <= lt1 < 8 and 0 <= lt2 < 8 and 1 <= second_phys <= 3
    post: _
    """
    # ONE SerializerOptions object (no explicit flow) used for two streams, then a dataclasses.replace() copy with another
    # logical type for a third: every header must declare what THAT stream was configured with
    import dataclasses
    integ = P["integ"]
    try:
        l1, l2 = alpha.pick(lt1, LOGICAL), alpha.pick(lt2, LOGICAL)
        p2 = alpha.pick(second_phys - 1, [1, 2, 3])
        opts = pj.make_options(1, logical=l1, generalized=integ == "generic", rdf_star=integ == "generic")
        ok = True

        def header_of(phys, o):
            if integ == "generic":
                data = pj.gen_serialize([ITEM[phys]], phys, o, entry="stream_frames_sink")
            else:
                data = pj.rdf_serialize([ITEM[phys]], phys, o, entry="graph_serialize")
            with notrace():
                return R.decode(bytes(data))[1]

        def expect(phys, o, lt):
            try:
                h = header_of(phys, o)
            except Exception:  # noqa: BLE001
                return not R.types_compatible(phys, lt)     # refused: must be exactly a forbidden pair
            want_lt = lt if lt else ((1 if phys == 1 else 2))
            return R.types_compatible(phys, lt) and h["physical_type"] == phys and h["logical_type"] == want_lt

        ok = ok and expect(1, opts, l1)
        ok = ok and expect(p2, opts, l1)                      # same object again, possibly another stream class
        ok = ok and expect(p2, dataclasses.replace(opts, logical_type=l2), l2)
        if P.get("twin"):
            ok = False
    except Exception:  # noqa: BLE001
        ok = False
    return fin(M, ok, lt1=lt1, lt2=lt2, second_phys=second_phys)


def matrix(phys: int, lt: int) -> bool:
    """
    pre: 0 <= phys <= 3 and 0 <= lt < 8
    post: _
    """
    # construction side: StreamTypes accepts exactly the pairs the specification allows
    try:
        ltv = alpha.pick(lt, LOGICAL)
        pv = alpha.pick(phys, [0, 1, 2, 3])
        try:
            StreamTypes(physical_type=pv, logical_type=ltv)
            accepted = True
        except Exception:  # noqa: BLE001
            accepted = False
        ok = accepted == R.types_compatible(pv, ltv)
        if P.get("twin"):
            ok = False
    except Exception:  # noqa: BLE001
        ok = False
    return fin(M, ok, phys=phys, lt=lt)


def names_min(n: int) -> bool:
    """
    pre: True
    post: _
    """
    # every integer: LookupPreset accepts max_names iff >= 8 (writer side) — n stays symbolic
    try:
        try:
            LookupPreset(max_names=n, max_prefixes=0, max_datatypes=0)
            accepted = True
        except Exception:  # noqa: BLE001
            accepted = False
        ok = accepted == (n >= 8)
        if P.get("twin"):
            ok = False
    except Exception:  # noqa: BLE001
        ok = False
    return fin(M, ok, n=n)


class _Spy:
    calls = 0


def lookup_max(size: int) -> bool:
    """
    pre: size > 4096 or size == P["accept"]
    post: _
    """
    # reader side: any size above 4096 is refused before anything is allocated (size symbolic, unbounded);
    # accepted sizes allocate exactly that many slots
    try:
        import pyjelly.parse.lookup as PL
        if not (size > 4096):
            size = P["accept"]  # accepted sizes reach C (deque maxlen): use the concrete value
        real = PL.deque
        _Spy.calls = 0

        def spy(*a, **k):
            _Spy.calls += 1
            return real(*a, **k)

        PL.deque = spy
        try:
            try:
                d = LookupDecoder(lookup_size=size)
                accepted = True
            except Exception:  # noqa: BLE001
                accepted = False
        finally:
            PL.deque = real
        if size > 4096:
            ok = (not accepted) and _Spy.calls == 0
        else:
            ok = accepted and len(d.data) == size
        if P.get("twin"):
            ok = False
    except Exception:  # noqa: BLE001
        ok = False
    return fin(M, ok, size=size)


def ref_stream(phys, logical, version=1, names=8, prefixes=8, datatypes=8, ns=False):
    enc = R.RefEncoder(phys, names=names, prefixes=prefixes, datatypes=datatypes, version=version, logical=logical)
    items = []
    if ns:
        enc.namespace("ex", "http://a/")
        items.append(("NS", "ex", "http://a/"))
    if phys == 1:
        enc.triple(alpha.I_AX, alpha.I_AY, alpha.L_PLAIN)
        items.append(("T", alpha.I_AX, alpha.I_AY, alpha.L_PLAIN))
    elif phys == 2:
        enc.quad(alpha.I_AX, alpha.I_AY, alpha.L_PLAIN, alpha.DEF)
        items.append(("Q", alpha.I_AX, alpha.I_AY, alpha.L_PLAIN, alpha.DEF))
    else:
        enc.graph_start(alpha.I_BX)
        enc.triple(alpha.I_AX, alpha.I_AY, alpha.L_PLAIN)
        enc.graph_end()
        items.append(("Q", alpha.I_AX, alpha.I_AY, alpha.L_PLAIN, alpha.I_BX))
    return enc, items


HOSTILE = [0, 1, 7, 8, 9, 4095, 4096, 4097, 65536, 2**32 - 1]


def parse_reject(phys: int, lt: int, ver: int, a: int, b: int, c: int) -> bool:
    """
    pre: 0 <= phys <= 3 and 0 <= lt < 8 and 0 <= ver <= 3 and 0 <= a < 10 and 0 <= b < 10 and 0 <= c < 10
    pre: (a == 3 and b == 3 and c == 3) or (P["vary"] == "sizes" and phys == 1 and lt == 1 and ver == 1)
    post: _
    """
    # reader side: a stream whose header the reference calls invalid (forbidden type pair, unsupported type or
    # version, name table < 8, any table > 4096) must make every parse entry point raise; a valid one must parse.
    try:
        pv = alpha.pick(phys, [0, 1, 2, 3])
        ltv = alpha.pick(lt, LOGICAL)
        vv = alpha.pick(ver, [0, 1, 2, 3])
        nm, pf, dt = alpha.pick(a, HOSTILE), alpha.pick(b, HOSTILE), alpha.pick(c, HOSTILE)
        with notrace():
            enc, items = ref_stream(pv if pv else 1, ltv, version=vv if vv else 1, names=8, prefixes=8, datatypes=8)
            enc.rows[0][1].update(physical_type=pv, version=vv, max_name_table_size=nm, max_prefix_table_size=pf, max_datatype_table_size=dt)
            enc.opt = enc.rows[0][1]
            data = enc.to_bytes(delimited=True)
            try:
                R.decode(data)
                valid = True
            except R.RefInvalid:
                valid = False
            if vv == 0:
                valid = None  # version 0: the property only speaks about versions newer than supported
        want = [norm_item(i) for i in items]
        ok = True
        for entry in P["entries"]:
            try:
                if P["integ"] == "generic":
                    got = [norm_item(i) for i in pj.gen_parse(data, entry=entry)]
                else:
                    got = [norm_item(i) for i in pj.rdf_parse(data, entry=entry)]
                raised = False
            except Exception:  # noqa: BLE001
                raised = True
            if valid is True:
                ok = ok and not raised and got == want
            elif valid is False:
                ok = ok and raised
        if P.get("twin"):
            ok = False
    except Exception:  # noqa: BLE001
        ok = False
    return fin(M, ok, phys=phys, lt=lt, ver=ver, a=a, b=b, c=c)


def strict(lt: int, strict: bool, grouped: bool) -> bool:
    """
    pre: 0 <= lt < 8
    post: _
    """
    # strict: flat parsers accept exactly the flat logical types, grouped parsers exactly the grouped ones;
    # non-strict: the logical type never influences what is parsed
    phys, integ = P["phys"], P["integ"]
    try:
        ltv = alpha.pick(lt, LOGICAL)
        if not R.types_compatible(phys, ltv):
            return True
        with notrace():
            enc, items = ref_stream(phys, ltv)
            data = enc.to_bytes(delimited=True)
        want = [norm_item(i) for i in items]
        entry = "grouped" if grouped else "flat"
        try:
            if integ == "generic":
                got = [norm_item(i) for i in pj.gen_parse(data, entry=entry, strict=bool(strict))]
            else:
                got = [norm_item(i) for i in pj.rdf_parse(data, entry=entry, strict=bool(strict))]
            raised = False
        except Exception:  # noqa: BLE001
            raised = True
        if strict:
            should_accept = (ltv in (3, 4, 13, 14, 114)) if grouped else (ltv in (1, 2))
            ok = (raised != should_accept) and (raised or got == want)
        else:
            ok = (not raised) and got == want
        if P.get("twin"):
            ok = False
    except Exception:  # noqa: BLE001
        ok = False
    return fin(M, ok, lt=lt, strict=strict, grouped=grouped)
