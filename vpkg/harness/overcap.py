"""C18: a statement that needs more distinct entries than an enabled table can hold at once."""
from __future__ import annotations

from typing import List

from vpkg import alpha, known, pj
from vpkg.harness import pipe
from vpkg.hutil import fin, notrace
from vpkg.ref import jelly as R
from vpkg.terms import norm_item

P: dict = {}
CEX = None
M = __name__

I = [("iri", "http://a/x"), ("iri", "http://b#y"), ("iri", "http://c/z"), ("iri", "urn:q"), ("iri", "http://d/w")]
LD = [("lit", "1", None, "http://dt/1"), ("lit", "2", None, "http://dt/2"), ("lit", "3", None, "http://dt/3")]
QT1 = ("triple", I[0], I[1], LD[0])
QT2 = ("triple", I[2], I[3], ("triple", I[4], I[0], LD[1]))
# nested quoted triple with 9 distinct names and prefixes (names table minimum is 8)
BIG = ("triple", ("iri", "http://p1/n1"), ("iri", "http://p2/n2"),
       ("triple", ("iri", "http://p3/n3"), ("iri", "http://p4/n4"),
        ("triple", ("iri", "http://p5/n5"), ("iri", "http://p6/n6"),
         ("triple", ("iri", "http://p7/n7"), ("iri", "http://p8/n8"), ("iri", "http://p9/n9")))))
S_AL = I[:3] + [QT1, LD[0], ("iri", "http://z/9"), ("lit", "s", None, "http://dt/0")]   # the last two re-use the OLDEST entries
P_AL = I[1:4] + [("iri", "http://a/p")]
O_AL = [I[2], I[4], LD[1], LD[2], QT1, QT2, BIG, ("iri", "http://a/o")]
G_AL = [("default",), I[3], I[4], LD[2]]


def overcap(s: int, p: int, o: int, g: int, pf: int, dt: int) -> bool:
    """
    pre: 0 <= s < 7 and 0 <= p < 4 and 0 <= o < 8 and 0 <= g < 4 and 1 <= pf <= P["maxpf"] and 1 <= dt <= 3
    pre: (s == P["s"]) and (P["phys"] != 1 or g == 0) and g < P["gmax"] and dt <= P["dtmax"]
    post: _
    """
    phys, integ = P["phys"], "generic"
    try:
        ts = [alpha.pick(s, S_AL), alpha.pick(p, P_AL), alpha.pick(o, O_AL)]
        if phys != 1:
            ts.append(alpha.pick(g, G_AL))
        pfv = alpha.pick(pf - 1, list(range(1, P["maxpf"] + 1)))
        dtv = alpha.pick(dt - 1, [1, 2, 3])
        # a first statement that fills the tables, then the statement under test
        # a first statement leaving two prefixes and (datatype table >= 2) two datatypes behind, oldest first
        first = ("T", ("iri", "http://z/0") if dtv < 2 else ("lit", "f", None, "http://dt/0"), ("iri", "http://z/1" if pfv < 2 else "http://y/1"),
                 ("lit", "0", None, "http://dt/0" if dtv < 2 else "http://dt/9"))
        if pfv >= 2 and dtv >= 2:
            first = ("T", ("iri", "http://z/0"), ("iri", "http://y/1"), ("lit", "0", None, "http://dt/0"))
        if phys != 1:
            first = ("Q",) + first[1:] + ((("default",),) if dtv < 2 or pfv < 2 else (("lit", "g", None, "http://dt/9"),))
        it = ("T" if phys == 1 else "Q",) + tuple(ts)
        items = [first, it]
        want = [norm_item(i) for i in items]
        pipe.P = dict(prefixes=pfv, names=8, datatypes=dtv)
        fit = pipe.fits(items)
        opts = pj.make_options(phys, frame_size=P["fs"], names=8, prefixes=pfv, datatypes=dtv)
        try:
            data = pj.gen_serialize(items, phys, opts, entry="stream_frames" if phys == 3 else "flat_file")
        except Exception:  # noqa: BLE001
            # refusing is fine when the statement does not fit; when it fits the writer must not refuse
            return fin(M, (not fit) and not P.get("twin"), s=s, p=p, o=o, g=g, pf=pf, dt=dt)
        with notrace():
            try:
                got = R.decode(bytes(data))[0]
            except Exception:  # noqa: BLE001
                got = None
            try:
                mine = [norm_item(i) for i in pj.gen_parse(bytes(data))]
            except Exception:  # noqa: BLE001
                mine = None
        ok = got == want and mine == want
        if not ok and not fit and known.is_open("C18-evicts-in-use") and not P.get("ignore_known"):
            ok = True  # exactly the open known finding: needs more entries than the table holds -> silently corrupt
        if P.get("twin"):
            ok = False
    except Exception:  # noqa: BLE001
        ok = False
    return fin(M, ok, s=s, p=p, o=o, g=g, pf=pf, dt=dt)
