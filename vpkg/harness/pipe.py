"""H-PIPE: the real serializer entry points -> bytes -> the real parsers / the independent reference decoder.

P: integ (generic|rdflib), phys (1,2,3), entry, pentry, names/prefixes/datatypes, delimited, spine (index of the
concrete first statement), s2 (concrete subject index of statement 2), alph names, mode in
{roundtrip, ref, audit, all}.  Symbolic: sel (selectors of the remaining slots), fs (frame size, unbounded).
"""
from __future__ import annotations

from typing import List

from pyjelly.errors import JellyConformanceError

from vpkg import alpha, known, pj
from vpkg.hutil import all_, fin, notrace
from vpkg.ref import jelly as R
from vpkg.terms import norm_item

P: dict = {}
CEX = None
M = __name__


def slot_alphabets():
    a = P["alph"]
    slots = [alpha.ALPH[a[0]], alpha.ALPH[a[1]], alpha.ALPH[a[2]]]
    if P["phys"] != 1:
        slots.append(alpha.ALPH[a[3]])
    return slots


def nsel():
    """number of symbolic selectors: all slots of statements 2..K except the fixed subject of statement 2"""
    per = 3 if P["phys"] == 1 else 4
    return (P["K"] - 1) * per - len(P["fixed"])


def pre_pipe(sel, fs) -> bool:
    if len(sel) != nsel():
        return False
    if not (fs >= 1):
        return False
    al = slot_alphabets()
    per = len(al)
    c = []
    for i, v in enumerate(sel):
        size = len(al[(i + len(P["fixed"])) % per])
        c.append((0 <= v) & (v < size))
    return all_(c)


def build_items(sel):
    phys = P["phys"]
    al = slot_alphabets()
    per = len(al)
    kind = "T" if phys == 1 else "Q"
    spines = (alpha.SPINES if P["integ"] == "generic" else alpha.RSPINES)[phys]
    items = [spines[P["spine"]]]
    flat = list(P["fixed"]) + list(sel)
    for k in range(P["K"] - 1):
        ts = [alpha.pick(flat[k * per + i], al[i]) for i in range(per)]
        items.append((kind,) + tuple(ts))
    return items


def needs_disabled_datatype(items) -> bool:
    def has_dt(t):
        if t[0] == "lit":
            return bool(t[3]) and t[3] != R.XSD_STRING and not t[2]
        if t[0] == "triple":
            return any(has_dt(x) for x in t[1:])
        return False
    return P["datatypes"] == 0 and any(has_dt(t) for it in items for t in it[1:])


def ref_split(iri):
    for sep in "#/":
        k = iri.rfind(sep)
        if k >= 0:
            return iri[:k + 1], iri[k + 1:]
    return "", iri


def stmt_needs(it):
    """distinct (prefixes, names, datatypes) one statement needs resident at once"""
    pre, nam, dts = set(), set(), set()

    def walk(t):
        if t[0] == "iri":
            p, n = ref_split(t[1])
            if P["prefixes"]:
                pre.add(p)
                nam.add(n)
            else:
                nam.add(t[1])
        elif t[0] == "lit" and t[3] and not t[2] and t[3] != R.XSD_STRING:
            dts.add(t[3])
        elif t[0] == "triple":
            for x in t[1:]:
                walk(x)
    for t in it[1:]:
        walk(t)
    return len(pre), len(nam), len(dts)


def fits(items) -> bool:
    for it in items:
        p, n, d = stmt_needs(it)
        if (P["prefixes"] and p > P["prefixes"]) or n > P["names"] or (P["datatypes"] and d > P["datatypes"]):
            return False
    return True


def xsd_coincidences(items) -> int:
    """Known finding C19-xsd-elision: slots where consecutive statements hold the same literal once typed
    xsd:string and once plain (same RDF term, different Python objects)."""
    n = 0
    for a, b in zip(items, items[1:]):
        for x, y in zip(a[1:], b[1:]):
            if x != y and norm_item(("T", x)) == norm_item(("T", y)):
                n += 1
    return n


def pipe(sel: List[int], fs: int) -> bool:
    """
    pre: pre_pipe(sel, fs)
    post: _
    """
    integ, phys, mode = P["integ"], P["phys"], P["mode"]
    ok = True
    why = ""
    try:
        items = build_items(sel)
        want = [norm_item(i) for i in items]
        if not fits(items):
            return True  # outside this property's claim (C18's subject)
        opts = pj.make_options(phys, frame_size=fs, delimited=P["delimited"], names=P["names"],
                               prefixes=P["prefixes"], datatypes=P["datatypes"],
                               generalized=integ == "generic", rdf_star=integ == "generic")
        if P.get("empty_graph"):
            opts._vp_empty_graphs = (P["empty_graph"],)   # rdflib Dataset also holds an EMPTY named graph with a new prefix/name
        ser = pj.gen_serialize if integ == "generic" else pj.rdf_serialize
        par = pj.gen_parse if integ == "generic" else pj.rdf_parse
        try:
            data = ser(items, phys, opts, entry=P["entry"])
        except JellyConformanceError:
            # documented refusal: typed literal while the datatype table is disabled
            return fin(M, needs_disabled_datatype(items), sel=sel, fs=fs)
        if mode in ("roundtrip", "all"):
            with notrace():
                # the reader's tables are sized from the matching header fields (internal attribute names: skipped if renamed)
                try:
                    import io as _io
                    from pyjelly.parse.decode import Decoder
                    from pyjelly.parse.ioutils import get_options_and_frames
                    from pyjelly.integrations.generic.parse import GenericTriplesAdapter
                    _po, _ = get_options_and_frames(_io.BytesIO(bytes(data)))
                    _d = Decoder(adapter=GenericTriplesAdapter(_po))
                    ok = ok and (_d.names.lookup_size, _d.prefixes.lookup_size, _d.datatypes.lookup_size) == (P["names"], P["prefixes"], P["datatypes"])
                except AttributeError:
                    pass
            with notrace():  # data is concrete here: nothing symbolic can flow into the parser
                kw = {"quads": phys != 1} if integ == "rdflib" else {}
                got = [norm_item(i) for i in par(bytes(data), entry=P.get("pentry", "flat"), **kw)]
            if P.get("setcmp"):
                ok = ok and sorted(map(repr, set(got))) == sorted(map(repr, set(want)))
            else:
                ok = ok and got == want
        if mode in ("ref", "audit", "all"):
            with notrace():
                ritems, ropt, dec = R.decode(bytes(data))
            if mode in ("ref", "all"):
                if P.get("setcmp"):
                    # rdflib stores are sets of rdflib terms; "x"^^xsd:string and "x" are two rdflib terms but one Jelly term
                    ok = ok and sorted(map(repr, set(ritems))) == sorted(map(repr, set(want)))
                else:
                    ok = ok and ritems == want
            if mode in ("audit", "all"):
                a = dec.audit
                allowed = xsd_coincidences(items) if (known.is_open("C19-xsd-elision") and not P.get("ignore_known")) else 0
                ok = ok and (a["redundant_entries"] == 0 and a["missed_zero_entry"] == 0 and a["missed_zero_prefix"] == 0
                             and a["missed_zero_name"] == 0 and a["missed_elision"] <= allowed)
                if phys == 3:
                    runs = sum(1 for i, it in enumerate(want) if i == 0 or it[4] != want[i - 1][4])
                    ok = ok and a["graph_starts"] == runs
        if P.get("twin"):
            ok = False
    except Exception as e:  # noqa: BLE001
        ok = False
    return fin(M, ok, sel=sel, fs=fs)
