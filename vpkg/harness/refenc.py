"""H-REFENC (C04): streams from the independent reference encoder, every legal producer choice driven by
symbolic policies, through pyjelly's parsers."""
from __future__ import annotations

from typing import List

from vpkg import alpha, pj
from vpkg.hutil import all_, fin, notrace
from vpkg.ref import jelly as R
from vpkg.terms import norm_item

P: dict = {}
CEX = None
M = __name__

TAGS = ["redundant", "explicit-entry", "explicit-ref", "victim", "no-repeat", "split"]


def tag_class(tag):
    if tag.startswith("redundant"):
        return 0
    if tag.startswith("explicit-entry"):
        return 1
    if tag.startswith("explicit"):
        return 2
    if tag.startswith("victim"):
        return 3
    if tag == "no-repeat":
        return 4
    if tag == "split":
        return 5
    return None


def pre_refenc(pol, cut) -> bool:
    if len(pol) != 6:
        return False
    fx = P.get("fixed_pol", [])
    c = [(0 <= v) & (v <= 2) for v in pol] + [(0 <= cut) & (cut < 5)]
    c += [pol[i] == fx[i] for i in range(len(fx))]
    return all_(c)


def pre_flags(delim, ropt) -> bool:
    return (not ropt) or P.get("ropt", True)


def statements(phys, rdf11=False):
    sp = (alpha.RSPINES if rdf11 else alpha.SPINES)[phys]
    extra = [sp[0], ("T", alpha.I_UNI, alpha.I_ANAME0, alpha.L_EMPTY) if phys == 1 else ("Q", alpha.I_UNI, alpha.I_ANAME0, alpha.L_EMPTY, alpha.I_AX)]
    out = []
    for it in list(sp) + extra:
        out.append(it)
        if any(t[0] == "triple" for t in it[1:]):
            # right after a statement holding a quoted triple: a statement that repeats its other terms
            rep = tuple(alpha.L_LANG if t[0] == "triple" else t for t in it[1:])
            out.append((it[0],) + rep)
    return out


def refenc(pol: List[int], cut: int, delim: bool, ropt: bool) -> bool:
    """
    pre: pre_refenc(pol, cut) and pre_flags(delim, ropt)
    post: _
    """
    phys, ver = P["phys"], P["version"]
    try:
        modes = [alpha.pick(v, [0, 1, 2]) for v in pol]
        ct = alpha.pick(cut, [0, 1, 2, 3, 4])
        dl, ro = bool(delim), bool(ropt)
        with notrace():
            occ = {}

            def choose(tag, n):
                k = tag_class(tag)
                if k is None:
                    return 0
                m = modes[k]
                occ[k] = occ.get(k, 0) + 1
                if m == 0:
                    return 0
                if m == 1:
                    return n - 1
                return (occ[k] % 2) * (1 if n > 1 else 0)

            enc = R.RefEncoder(phys, names=P["names"], prefixes=P["prefixes"], datatypes=P["datatypes"], version=ver, choose=choose)
            want = []
            sts = statements(phys)
            try:
                for j, it in enumerate(sts):
                    if ver == 2 and j in (0, 2):
                        nm, iri = ("", "http://a/") if j == 0 else ("ż", "urn:q")
                        enc.namespace(nm, iri)
                        want.append(("NS", nm, iri))
                    if phys == 3:
                        enc.graph_start(it[4])
                        enc.triple(*it[1:4])
                        enc.graph_end()
                    elif phys == 2:
                        enc.quad(*it[1:])
                    else:
                        enc.triple(*it[1:])
                    want.append(norm_item(it))
                    if ro and j == 1:
                        enc.repeat_options()
            except R.RefInvalid:
                return True  # these choices cannot be honoured with these tables: not a valid stream, nothing to check
            n = len(enc.rows)
            cuts = {0: set(), 1: set(range(n)), 2: {0, n // 2}, 3: {1, 2, n - 2}, 4: set(range(0, n, 3))}[ct]
            data = enc.to_bytes(delimited=dl, cuts=cuts if dl else None, empty_frames={1, 2} if (dl and ct in (2, 4)) else ())
            # the reference itself must read its own stream back (guards the oracle)
            assert R.decode(data)[0] == want
            res = []
            for entry in ("flat", "grouped", "to_graph"):
                try:
                    res.append([norm_item(i) for i in pj.gen_parse(data, entry=entry)])
                except Exception as e:  # noqa: BLE001
                    res.append("EXC:" + type(e).__name__)
            stm = [i for i in want if i[0] != "NS"]
            nsd = {}
            for i in want:
                if i[0] == "NS":
                    nsd[i[1]] = i[2]
            ns_final = [("NS", k, v) for k, v in nsd.items()]
            ok = res[0] == want
            # grouped / to_graph deliver namespaces through sink.bind (a dict per sink): compare statements and bindings
            ok = ok and isinstance(res[1], list) and [i for i in res[1] if i[0] != "NS"] == stm
            ok = ok and isinstance(res[2], list) and [i for i in res[2] if i[0] != "NS"] == stm and [i for i in res[2] if i[0] == "NS"] == ns_final
        if P.get("twin"):
            ok = False
    except Exception:  # noqa: BLE001
        ok = False
    return fin(M, ok, pol=pol, cut=cut, delim=delim, ropt=ropt)
