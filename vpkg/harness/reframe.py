"""H-REFRAME (C07): frame boundaries never change content; grouped I/O is one sink per frame."""
from __future__ import annotations

import io
from contextvars import ContextVar
from typing import List

from pyjelly import jelly

from vpkg import alpha, pj
from vpkg.hutil import all_, fin, notrace
from vpkg.ref import jelly as R
from vpkg.ref import wire
from vpkg.terms import norm_item

P: dict = {}
CEX = None
M = __name__


def base_rows(phys, rdf11):
    enc = R.RefEncoder(phys, names=8, prefixes=P.get("prefixes", 4), datatypes=2, generalized=not rdf11, rdf_star=not rdf11)
    sts = (alpha.RSPINES if rdf11 else alpha.SPINES)[phys][:3]
    want_rows = []
    for it in sts:
        if phys == 3:
            enc.graph_start(it[4])
            enc.triple(*it[1:4])
            enc.graph_end()
        elif phys == 2:
            enc.quad(*it[1:])
        else:
            enc.triple(*it[1:])
    return enc.rows, [norm_item(i) for i in sts]


def pre_reframe(cuts, empties, meta) -> bool:
    n = P["nrows"]
    if not (len(cuts) == n - 1 and len(empties) == 2 and len(meta) == 2):
        return False
    c = [cuts[i] == v for i, v in enumerate(P.get("fixcuts", []))]
    if P.get("maxcuts") is not None:
        tot = 0
        for x in cuts:
            tot = tot + (1 if x else 0)   # forks per gap, but prunes vectors with too many cuts early
            if tot > P["maxcuts"]:
                return False
    if P.get("tie"):
        c += [empties[0] == meta[0], empties[1] == meta[1]]
    return all_(c)


def reframe(cuts: List[bool], empties: List[bool], meta: List[bool]) -> bool:
    """
    pre: pre_reframe(cuts, empties, meta)
    post: _
    """
    integ, phys = P["integ"], P["phys"]
    try:
        cv = [bool(c) for c in cuts]      # one path per cut vector
        ev = [bool(e) for e in empties]   # empty frame in front / in the middle
        mv = [bool(m) for m in meta]      # metadata on frame 0 / on the last frame
        with notrace():
            rows, want = base_rows(phys, integ == "rdflib")
            assert len(rows) == P["nrows"], (len(rows), P["nrows"])
            frames, cur = [], []
            for i, r in enumerate(rows):
                cur.append(r)
                if i == len(rows) - 1 or cv[i]:
                    frames.append(cur)
                    cur = []
            if ev[1] and len(frames) > 1:
                frames.insert(len(frames) // 2, [])
            if ev[0]:
                frames.insert(0, [])
            metas = [{} for _ in frames]
            if mv[0]:
                metas[0] = {"k": b"first", "": b"\x00"}
            if mv[1]:
                metas[-1] = {"k": b"last"}
            data = wire.delimit([wire.enc_frame(f, m) for f, m in zip(frames, metas)])
            # per-frame content according to the reference
            dec = R.RefDecoder()
            per = []
            for f in frames:
                before = len(dec.items)
                for r in f:
                    dec.row(wire.dec_row(wire.enc_row(r)))
                per.append([norm_item(i) for i in dec.items[before:]])
            setsem = integ == "rdflib"
            cv_meta: ContextVar = ContextVar("frame_metadata")
            ok = True
            if integ == "generic":
                from pyjelly.integrations.generic import parse as gp
                flat = [norm_item(pj.terms.item_from_generic(x)) for x in gp.parse_jelly_flat(io.BytesIO(data))]
                ok = ok and flat == want
                j = 0
                for sink in gp.parse_jelly_grouped(io.BytesIO(data), frame_metadata=cv_meta):
                    seen = dict(cv_meta.get())
                    ok = ok and j < len(frames) and [norm_item(pj.terms.item_from_generic(x)) for x in sink] == per[j] and seen == metas[j]
                    j += 1
                ok = ok and j == len(frames)
            else:
                from pyjelly.integrations.rdflib import parse as rp
                flat = [norm_item(pj.terms.item_from_rdflib(x)) for x in rp.parse_jelly_flat(io.BytesIO(data))]
                ok = ok and flat == want
                j = 0
                for g in rp.parse_jelly_grouped(io.BytesIO(data), frame_metadata=cv_meta):
                    seen = dict(cv_meta.get())
                    got = sorted(map(repr, (norm_item(i) for i in pj.store_items(g))))
                    exp = per[j] if phys != 1 else [("T",) + i[1:4] for i in per[j]]
                    ok = ok and j < len(frames) and got == sorted(map(repr, set(exp))) and seen == metas[j]
                    j += 1
                ok = ok and j == len(frames)
        if P.get("twin"):
            ok = False
    except Exception:  # noqa: BLE001
        ok = False
    return fin(M, ok, cuts=cuts, empties=empties, meta=meta)


# ------------------------------------------------------------------------------------------
GROUPED_LT = {1: [3, 13], 2: [4, 14, 114], 3: [4, 14]}


def sink_items(phys, j):
    sp = alpha.RSPINES[phys]
    a = sp[j % len(sp)]
    b = sp[(j + 1) % len(sp)]
    return [a, b]


def grouped_ser(n1: int, n2: int, n3: int, lt: int, dfs: int) -> bool:
    """
    pre: 0 <= n1 <= 2 and 0 <= n2 <= 2 and 0 <= n3 <= 2 and 0 <= lt < len(GROUPED_LT[P["phys"]]) and dfs >= 1
    post: _
    """
    # grouped serialisation with a grouped logical type: one shared stream, exactly one statement-carrying frame
    # per non-empty input sink, holding exactly that sink's statements
    integ, phys = P["integ"], P["phys"]
    try:
        ns = [alpha.pick(n, [0, 1, 2]) for n in (n1, n2, n3)]
        ltv = alpha.pick(lt, GROUPED_LT[phys])
        # the library's DEFAULT_FRAME_SIZE constant (250) is made a symbolic integer: grouped flows must not depend on it
        from pyjelly.serialize import flows as _flows
        _saved_default = _flows.DEFAULT_FRAME_SIZE
        _flows.DEFAULT_FRAME_SIZE = dfs
        sinks_items = [sink_items(phys, j)[:k] for j, k in enumerate(ns)]
        if not any(sinks_items):
            return True
        opts = pj.make_options(phys, logical=ltv, generalized=False, rdf_star=False, prefixes=P.get("prefixes", 4), datatypes=2)
        ds_input = bool(P.get("dataset_input"))
        if ds_input:
            # rdflib Datasets handed to a TripleStream with a GRAPHS-family logical type: one frame per graph of each dataset
            qsp = alpha.RSPINES[2]
            sinks_q = [[qsp[(j + i) % len(qsp)] for i in range(k)] for j, k in enumerate(ns)]
            sinks_items = sinks_q
        if integ == "generic":
            from pyjelly.integrations.generic import serialize as gs
            sinks = [pj.gen_sink(its) for its in sinks_items]
            if phys == 3:
                stream = pj.gen_stream(3, opts)
                frames = [f for s in sinks for f in gs.stream_frames(stream, s)]
            else:
                frames = list(gs.grouped_stream_to_frames((s for s in sinks), opts))
        else:
            from pyjelly.integrations.rdflib import serialize as rs
            with notrace():
                stores = [pj.rdf_store(its) if its else (__import__("rdflib").Graph() if (phys == 1 and not ds_input) else __import__("rdflib").Dataset()) for its in sinks_items]
            if phys == 3:
                stream = pj.PHYS_STREAM[3].for_rdflib(opts)
                frames = [f for s in stores for f in rs.stream_frames(stream, s)]
            else:
                frames = list(rs.grouped_stream_to_frames((s for s in stores), opts))
        with notrace():
            dec = R.RefDecoder()
            per = []
            for f in frames:
                before = len(dec.items)
                dec.frame(f.SerializeToString())
                per.append([norm_item(i) for i in dec.items[before:]])
            carrying = [p for p in per if p]
            nonempty = [[norm_item(i) for i in its] for its in sinks_items if its]
            if ds_input:
                # expected: per dataset, per graph (in the dataset's own graph order) one frame with that graph's triples
                nonempty = []
                for st in stores:
                    for g in st.graphs():
                        ts = [("T",) + tuple(pj.terms.from_rdflib(y) for y in t) for t in g]
                        if ts:
                            nonempty.append([norm_item(i) for i in ts])
            if integ == "rdflib":
                ok = len(carrying) == len(nonempty) and all(sorted(map(repr, a)) == sorted(map(repr, set(b))) for a, b in zip(carrying, nonempty))
            else:
                ok = carrying == nonempty
            ok = ok and sum(1 for f in frames for r in f.rows if r.HasField("options")) == 1
        if P.get("twin"):
            ok = False
    except Exception:  # noqa: BLE001
        if __import__("os").environ.get("VP_DEBUG"):
            __import__("traceback").print_exc()
        ok = False
    finally:
        try:
            _flows.DEFAULT_FRAME_SIZE = _saved_default
        except Exception:  # noqa: BLE001
            pass
    return fin(M, ok, n1=n1, n2=n2, n3=n3, lt=lt, dfs=dfs)
