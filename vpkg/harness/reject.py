"""H-INJECT / L-READ-REJECT (C16) and hostile-structure streams (C17).

A valid stream (reference encoder) gets one spec violation of a catalogued class injected at a symbolic
position; the reference decoder must call the result invalid (else the case is discarded); pyjelly must raise
at or before the offending row and everything it yielded before must be a prefix of the valid part."""
from __future__ import annotations

import copy
import io

from vpkg import alpha, pj
from vpkg.hutil import begin, fin, notrace
from vpkg.ref import jelly as R
from vpkg.ref import wire
from vpkg.terms import norm_item

P: dict = {}
CEX = None
M = __name__

# exactly the classes the property statement catalogues (a stray graph end or a changed options row are not in it)
CLASSES = ["entry_id_big", "ref_big", "ref_unfilled", "datatype_zero", "datatype_disabled", "repeat_no_prev",
           "repeat_in_quoted", "no_options", "wrong_row_kind", "triple_outside_graph",
           "prefix_ref_disabled", "name_zero_overflow", "ref_unfilled_sparse", "repeat_in_nested_quoted"]
BIG = [None, 2**32 - 1]


def base_rows(phys, datatypes=4, prefixes=4, rdf=False):
    enc = R.RefEncoder(phys, names=8, prefixes=prefixes, datatypes=datatypes)
    lit = alpha.L_DT1 if datatypes else alpha.L_PLAIN
    qt = ("triple", alpha.I_AX, alpha.I_AY, lit) if not rdf else alpha.I_URN
    if phys == 1:
        enc.triple(alpha.I_AX, alpha.I_AY, lit)
        enc.triple(alpha.I_AX, alpha.I_BX, qt)
        enc.triple(alpha.B1, alpha.I_BX, alpha.L_LANG)
    elif phys == 2:
        enc.quad(alpha.I_AX, alpha.I_AY, lit, alpha.DEF)
        enc.quad(alpha.I_AX, alpha.I_BX, qt, alpha.I_CZ)
        enc.quad(alpha.B1, alpha.I_BX, alpha.L_LANG, alpha.I_CZ)
    else:
        enc.graph_start(alpha.I_CZ)
        enc.triple(alpha.I_AX, alpha.I_AY, lit)
        enc.triple(alpha.I_AX, alpha.I_BX, qt)
        enc.graph_end()
        enc.graph_start(alpha.DEF)
        enc.triple(alpha.B1, alpha.I_BX, alpha.L_LANG)
        enc.graph_end()
    return enc.rows


def stmt_positions(rows):
    return [i for i, r in enumerate(rows) if r[0] in ("triple", "quad")]


def first_iri_slot(row):
    for i, t in enumerate(row[1]):
        if t is not None and t[0] == "iri":
            return i
    return None


def inject(rows, cls, pos, big, phys):
    """-> mutated rows or None if the class does not apply at this position. pos indexes statement rows."""
    rows = copy.deepcopy(rows)
    sp = stmt_positions(rows)
    if pos >= len(sp):
        return None
    at = sp[pos]
    row = rows[at]
    sizes = rows[0][1]
    bigv = BIG[big]
    if cls == "entry_id_big":
        kinds = ["name", "prefix", "datatype"]
        k = kinds[pos % 3]
        size = sizes["max_%s_table_size" % k]
        rows.insert(at, (k, bigv or size + 1, "zzz"))
    elif cls == "ref_big":
        s = first_iri_slot(row)
        if s is None:
            return None
        t = row[1][s]
        row[1][s] = ("iri", t[1], bigv or sizes["max_name_table_size"] + 1) if pos % 2 == 0 else ("iri", bigv or sizes["max_prefix_table_size"] + 1, t[2])
    elif cls == "ref_unfilled":
        s = first_iri_slot(row)
        if s is None:
            return None
        t = row[1][s]
        row[1][s] = ("iri", t[1], 7) if pos % 2 == 0 else ("iri", sizes["max_prefix_table_size"], t[2])
    elif cls == "ref_unfilled_sparse":
        # an explicit entry id that skips slots, then a reference to a skipped slot BELOW the highest assigned id
        s = first_iri_slot(row)
        if s is None:
            return None
        rows.insert(at, ("name", 7, "hi"))
        t = row[1][s]
        row[1][s] = ("iri", t[1], 6)
    elif cls == "datatype_zero":
        row[1][2] = ("lit", "v", None, 0)
    elif cls == "datatype_disabled":
        if sizes["max_datatype_table_size"] != 0:
            return None
        row[1][2] = ("lit", "v", None, 1)
    elif cls == "repeat_no_prev":
        # drop every statement before this one, then elide a term
        keep = [r for i, r in enumerate(rows) if i >= at or r[0] not in ("triple", "quad")]
        keep_at = keep.index(row)
        keep[keep_at][1][pos % 3] = None
        # graph rows of removed statements stay balanced; entries stay
        return keep
    elif cls == "repeat_in_quoted":
        q = [i for i, t in enumerate(row[1]) if t is not None and t[0] == "triple"]
        if not q:
            row[1][2] = ("triple", [("bnode", "q"), None, ("bnode", "r")])  # rdflib has no quoted triples: must still raise
        else:
            row[1][q[0]][1][1] = None
    elif cls == "repeat_in_nested_quoted":
        # a quoted triple whose SUBJECT is a complete quoted triple and whose predicate is left unset
        row[1][2] = ("triple", [("triple", [("bnode", "a"), ("bnode", "b"), ("bnode", "c")]), None, ("bnode", "r")])
    elif cls == "no_options":
        return rows[1:] if pos == 0 else None
    elif cls == "wrong_row_kind":
        if phys == 1:
            rows[at] = ("quad", row[1] + [("default",)]) if pos % 2 == 0 else ("graph_start", ("default",))
        elif phys == 2:
            rows[at] = ("triple", row[1][:3]) if pos % 2 == 0 else ("graph_end",)
        else:
            rows[at] = ("quad", row[1] + [("default",)])
    elif cls == "triple_outside_graph":
        if phys != 3:
            return None
        # move the statement in front of its graph start (pos 0) or behind the last graph end
        r = rows.pop(at)
        if pos == 0:
            gs = [i for i, x in enumerate(rows) if x[0] == "graph_start"][0]
            rows.insert(gs, r)
        else:
            rows.append(r)
    elif cls == "graph_end_without_start":
        if phys != 3:
            return None
        rows.insert(at if pos == 0 else len(rows), ("graph_end",)) if pos != 0 else rows.insert([i for i, x in enumerate(rows) if x[0] == "graph_start"][0], ("graph_end",))
    elif cls == "prefix_ref_disabled":
        if sizes["max_prefix_table_size"] != 0:
            return None
        s = first_iri_slot(row)
        if s is None:
            return None
        t = row[1][s]
        row[1][s] = ("iri", 1, t[2])
    elif cls == "name_zero_overflow":
        # name id 0 means last+1: make last = size so that 0 denotes size+1
        s = first_iri_slot(row)
        if s is None:
            return None
        rows.insert(at, ("name", sizes["max_name_table_size"], "last"))
        t = row[1][s]
        row[1][s] = ("iri", t[1], sizes["max_name_table_size"])
        nxt = copy.deepcopy(row)
        nxt[1][s] = ("iri", t[1], 0)
        for i in range(len(nxt[1])):
            if i != s and nxt[1][i] is not None and nxt[1][i][0] == "triple":
                nxt[1][i] = ("bnode", "x")
        rows.insert(at + 2, nxt)
    elif cls == "options_changed":
        o = dict(rows[0][1])
        o["max_name_table_size"] = o["max_name_table_size"] + 1
        rows.insert(at, ("options", o))
    return rows


def ref_prefix(rows):
    """(valid?, items decoded before the first violation)"""
    dec = R.RefDecoder()
    try:
        for r in rows:
            # go through the wire so that the reference sees exactly what pyjelly sees
            dec.row(wire.dec_row(wire.enc_row(r)))
        return True, [norm_item(i) for i in dec.items]
    except (R.RefInvalid, wire.WireError):
        return False, [norm_item(i) for i in dec.items]


def run_parser(data, integ, entry):
    got = []
    raised = None
    try:
        if integ == "generic":
            from pyjelly.integrations.generic import parse as gp
            if entry == "flat":
                for x in gp.parse_jelly_flat(io.BytesIO(data)):
                    got.append(norm_item(pj.terms.item_from_generic(x)))
            elif entry == "grouped":
                for sink in gp.parse_jelly_grouped(io.BytesIO(data)):
                    for x in sink:
                        got.append(norm_item(pj.terms.item_from_generic(x)))
            else:
                for x in gp.parse_jelly_to_graph(io.BytesIO(data)):
                    got.append(norm_item(pj.terms.item_from_generic(x)))
        else:
            from pyjelly.integrations.rdflib import parse as rp
            if entry == "flat":
                for x in rp.parse_jelly_flat(io.BytesIO(data)):
                    got.append(norm_item(pj.terms.item_from_rdflib(x)))
            elif entry == "grouped":
                for g in rp.parse_jelly_grouped(io.BytesIO(data)):
                    got.extend(norm_item(i) for i in pj.store_items(g))
            else:
                got.extend(norm_item(i) for i in pj.store_items(rp.parse_jelly_to_graph(io.BytesIO(data))))
    except Exception as e:  # noqa: BLE001
        raised = e
    return got, raised


def inject_h(cls: int, pos: int, big: int, cut: int) -> bool:
    """
    pre: 0 <= cls < len(CLASSES) and 0 <= pos < 3 and 0 <= big < 2 and 0 <= cut < 2
    pre: P["cls"] is None or CLASSES[P["cls"]] == CLASSES[cls]
    post: _
    """
    integ, phys, entry = P["integ"], P["phys"], P["entry"]
    try:
        c = alpha.pick(cls, CLASSES)
        ps = alpha.pick(pos, [0, 1, 2])
        bg = alpha.pick(big, [0, 1])
        ct = alpha.pick(cut, [0, 1])
        if known_excluded(c, phys, integ):
            return True
        with notrace():
            rows = base_rows(phys, datatypes=P["datatypes"], prefixes=P["prefixes"], rdf=integ == "rdflib")
            mut = inject(rows, c, ps, bg, phys)
            if mut is None:
                return True
            valid, before = ref_prefix(mut)
            if valid:
                return True  # the oracle never demands more than the spec
            # one row per frame (cut=1) or a single frame (cut=0)
            if ct:
                data = wire.delimit([wire.enc_frame([r]) for r in mut])
            else:
                data = wire.delimit([wire.enc_frame(mut)])
        with notrace():
            # history: the same process has just parsed the VALID base stream (state must not leak between parsers)
            run_parser(wire.delimit([wire.enc_frame(rows)]), integ, entry)
        got, raised = run_parser(data, integ, entry)
        if entry == "flat":
            ok = raised is not None and got == before[:len(got)]
        else:
            # grouped / to_graph deliver nothing when they raise before returning; sets may reorder
            ok = raised is not None
        if P.get("twin"):
            ok = False
    except Exception:  # noqa: BLE001
        ok = False
    return fin(M, ok, cls=cls, pos=pos, big=big, cut=cut)


def known_excluded(c, phys, integ) -> bool:
    return False


# ------------------------------------------------------------------------------------------
# H-HOSTILE (C17): message-structured hostile streams; every entry point must return or raise an
# ordinary Exception (termination is enforced by the per-path / native replay time limits).
HOSTILE_IDS = [0, 1, 8, 9, 4096, 4097, 2**32 - 1]
KINDS = ["options", "options2", "name", "prefix", "datatype", "triple", "quad", "graph_start", "graph_end", "namespace", "empty"]
DEPTHS = [1, 50, 99, 100, 101]
LIES = ["none", "shorter", "longer", "huge", "zero"]


def nested(depth, leaf):
    t = leaf
    for _ in range(depth):
        t = ("triple", [("bnode", "a"), ("bnode", "b"), t])
    return t


def hostile_row(kind, v, depth, phys):
    opt = {"stream_name": "", "physical_type": phys, "generalized_statements": 1, "rdf_star": 1, "max_name_table_size": 8,
           "max_prefix_table_size": 8, "max_datatype_table_size": 8, "logical_type": 0, "version": 1}
    if kind == "options":
        return ("options", opt)
    if kind == "options2":
        return ("options", dict(opt, max_name_table_size=v, max_prefix_table_size=v, physical_type=(v % 5), version=v % 4 if v < 4096 else v))
    if kind in ("name", "prefix", "datatype"):
        return (kind, v, "val")
    iri = ("iri", v, v)
    obj = nested(depth, ("lit", "x", None, v)) if depth > 1 else ("lit", "x", None, v)
    if kind == "triple":
        return ("triple", [iri, None if v == 0 else iri, obj])
    if kind == "quad":
        return ("quad", [iri, iri, obj, iri])
    if kind == "graph_start":
        return ("graph_start", iri)
    if kind == "graph_end":
        return ("graph_end",)
    if kind == "namespace":
        return ("namespace", "p", iri)
    return None


def hostile_bytes(kinds, vals, depth, lie, phys, with_options):
    rows = [("options", hostile_row("options", 0, 1, phys)[1])] if with_options else []
    frames = []
    for k, v in zip(kinds, vals):
        r = hostile_row(k, v, depth, phys)
        rows.append(r)
    body = b"".join(wire.f_bytes(1, wire.enc_row(r) if r is not None else b"") for r in rows)
    n = len(body)
    declared = {"none": n, "shorter": max(n - 3, 0), "longer": n + 7, "huge": 2**31 - 1, "zero": 0}[lie]
    return wire.enc_varint(declared) + body


def hostile(k2: int, k3: int, v: int, depth: int, lie: int, opt: bool) -> bool:
    """
    pre: 0 <= k2 < 11 and 0 <= k3 < 11 and 0 <= v < 7 and 0 <= depth < 5 and 0 <= lie < 5
    pre: (P["k2"] is None or k2 == P["k2"]) and (P["k3"] is None or k3 == P["k3"])
    pre: (depth == 0 or v == 1) and (lie == 0 or (v == 1 and depth == 0))
    post: _
    """
    k1 = P["k1"]
    v1 = v2 = v3 = v
    integ, phys = P["integ"], P["phys"]
    try:
        ks = [alpha.pick(k, KINDS) for k in (k1, k2, k3)]
        vs = [alpha.pick(v, HOSTILE_IDS) for v in (v1, v2, v3)]
        d = alpha.pick(depth, DEPTHS)
        li = alpha.pick(lie, LIES)
        opt = True if opt else False
        # concrete copies of the (now pinned) inputs: a hang from here on can be replayed natively
        begin(M, k2=KINDS.index(ks[1]), k3=KINDS.index(ks[2]), v=HOSTILE_IDS.index(vs[0]), depth=DEPTHS.index(d), lie=LIES.index(li), opt=opt)
        with notrace():
            data = hostile_bytes(ks, vs, d, li, phys, bool(opt))
        ok = True
        for entry in P["entries"]:
            got, raised = run_parser(data, integ, entry)
            # returning or raising an ordinary Exception are both fine; reaching this line means it terminated
            if raised is not None and not isinstance(raised, Exception):
                ok = False
            for it in got:
                if "BAD" in repr(it):
                    ok = False  # a fabricated non-term (e.g. None) delivered as data
        if P.get("twin"):
            ok = False
    except Exception:  # noqa: BLE001
        ok = False
    return fin(M, ok, k2=k2, k3=k3, v=v, depth=depth, lie=lie, opt=opt)
