"""L-SPLIT: split_iri on a genuinely symbolic string (z3 string theory)."""
from __future__ import annotations

from pyjelly.serialize.encode import split_iri

from vpkg.hutil import fin

P: dict = {}
CEX = None
M = __name__


def split(s: str) -> bool:
    """
    pre: len(s) <= P["maxlen"]
    post: _
    """
    try:
        p, n = split_iri(s)
        ok = p + n == s
        if "#" in s:
            ok = ok and p.endswith("#") and "#" not in n
        elif "/" in s:
            ok = ok and p.endswith("/") and "/" not in n
        else:
            ok = ok and p == ""
        if P.get("twin"):
            ok = False
    except Exception:  # noqa: BLE001
        ok = False
    return fin(M, ok, s=s)
