"""L-STMT: ONE statement through the real TermEncoder/encode_triple -> protobuf row objects -> the real
Decoder (ingest_* / decode_statement / decode_iri / decode_literal), from ARBITRARY symbolic states of the
name, prefix and datatype table pairs (representation invariant I_tab of vpkg.harness.tab).

Unit parameters: kinds (term kind per slot: iri | bnode | lit | tlit | qt), table shapes
{name:(n,m), prefix:(n,m,e), datatype:(n,m)} ; symbolic: index maps, reader slot maps, la/lr per table and the
key choices of each IRI / typed literal (fresh or resident rank).
"""
from __future__ import annotations

from collections import OrderedDict, deque
from typing import List

from pyjelly import jelly
from pyjelly.options import LookupPreset, StreamParameters, StreamTypes
from pyjelly.parse.decode import Adapter, Decoder, ParserOptions
from pyjelly.parse.lookup import LookupDecoder
from pyjelly.serialize.encode import encode_quad, encode_triple
from pyjelly.serialize.lookup import LookupEncoder

from vpkg.hutil import all_, any_, fin

P: dict = {}
CEX = None
M = __name__


class K:
    """opaque reader slot content: the key whose pre-state LRU rank is `rank` in table `tab`"""

    __slots__ = ("tab", "rank")

    def __init__(self, tab, rank):
        self.tab, self.rank = tab, rank

    def __add__(self, other):
        return Cat(self, other)

    def __radd__(self, other):
        return Cat(other, self)


class Cat:
    __slots__ = ("a", "b")

    def __init__(self, a, b):
        self.a, self.b = a, b


def pkey(i, e):
    return "" if i == e else f"http://p{i}/"


def nkey(i):
    return f"n{i}"


def dkey(i):
    return f"http://dt/{i}"


KEYFN = {"name": lambda i, e: nkey(i), "prefix": pkey, "datatype": lambda i, e: dkey(i)}


def inv_tab(kind, n, m, e, pi, r, la, lr):
    if n == 0:
        return True
    c = [(1 <= pi[i]) & (pi[i] <= m) for i in range(m)]
    c += [(1 <= r[p]) & (r[p] <= m) for p in range(m)]
    c += [(pi[i] != p + 1) | (r[p] == i + 1) for i in range(m) for p in range(m)]
    c.append((la == m) if m < n else ((1 <= la) & (la <= n)))
    mru = (lr == pi[m - 1]) if m > 0 else (lr == 0)
    if kind == "prefix" and (m == 0 or (m == 1 and e == 1)):
        c.append(mru | (lr == 0))
    elif kind == "datatype":
        c.append((0 <= lr) & (lr <= n))   # datatype references never use the last-reused index
    else:
        c.append(mru)
    return all_(c)


def shape(kind):
    t = P["tables"][kind]
    return t["n"], t["m"], t.get("e", 0)


def pre_stmt(pn, rn, lan, lrn, pp, rp, lap, lrp, pd, rd, lad, lrd, ch) -> bool:
    nn, mn, _ = shape("name")
    np_, mp, ep = shape("prefix")
    nd, md, _ = shape("datatype")
    if not (len(pn) == mn and len(rn) == mn and len(pp) == mp and len(rp) == mp and len(pd) == md and len(rd) == md):
        return False
    if len(ch) != P["nchoices"]:
        return False
    c = [inv_tab("name", nn, mn, 0, pn, rn, lan, lrn), inv_tab("prefix", np_, mp, ep, pp, rp, lap, lrp),
         inv_tab("datatype", nd, md, 0, pd, rd, lad, lrd)]
    if np_ == 0:
        c += [lap == 0, lrp == 0]
    if nd == 0:
        c += [lad == 0, lrd == 0]
    return all_(c)


def build_pair(kind, pi, r, la, lr):
    n, m, e = shape(kind)
    enc = LookupEncoder(lookup_size=n)
    kf = KEYFN[kind]
    enc.lookup.data = OrderedDict((kf(i + 1, e), pi[i]) for i in range(m))
    enc.lookup._evicting = (m == n) and n > 0
    enc.last_assigned_index = la
    enc.last_reused_index = lr
    dec = LookupDecoder(lookup_size=n)
    dec.data = deque([K(kind, r[p]) for p in range(m)] + [None] * (n - m), maxlen=n)
    dec.last_assigned_index = la
    dec.last_reused_index = lr
    return enc, dec


class HAdapter(Adapter):
    """harness adapter: hands decoded pieces back unchanged so that ranks can be compared symbolically"""

    def iri(self, iri):
        return ("iri", iri)

    def bnode(self, bnode):
        return ("bnode", bnode)

    def default_graph(self):
        return ("default",)

    def literal(self, lex, language=None, datatype=None):
        return ("lit", lex, language, datatype)

    def triple(self, terms):
        return ("T",) + tuple(terms)

    def quad(self, terms):
        return ("Q",) + tuple(terms)

    def quoted_triple(self, terms):
        return ("triple",) + tuple(terms)


def choose_key(kind, c, m, e, fresh_tag):
    """c symbolic: 0 = fresh key, 1..m resident rank -> (key string, rank)"""
    kf = KEYFN[kind]
    for i in range(1, m + 1):
        if c == i:
            return kf(i, e), i
    if kind == "prefix":
        return f"http://fresh{fresh_tag}/", 0
    if kind == "name":
        return f"fresh{fresh_tag}", 0
    return f"http://dt/fresh{fresh_tag}", 0


def denotes(piece, kind, key, rank):
    """does a decoded string piece denote (key, rank)?"""
    if isinstance(piece, K):
        return (piece.tab == kind) & (piece.rank == rank) if rank else False
    return isinstance(piece, str) and str(piece) == str(key)   # re-sent within this statement (fresh, or evicted and inserted again)


def term_ok(dec_term, spec):
    """compare a decoded term with the expected spec (built from choices)"""
    k = spec[0]
    if k == "iri":
        _, (pk, prank), (nk, nrank) = spec
        if dec_term[0] != "iri":
            return False
        v = dec_term[1]
        np_ = shape("prefix")[0]
        if np_ == 0:
            # prefix table disabled: the whole IRI is the name key
            if isinstance(v, Cat):
                return (v.a == "") & denotes(v.b, "name", nk, nrank)
            return denotes(v, "name", nk, nrank)
        if isinstance(v, Cat):
            return denotes(v.a, "prefix", pk, prank) & denotes(v.b, "name", nk, nrank)
        return isinstance(v, str) and str(v) == pk + nk
    if k == "bnode":
        return dec_term == ("bnode", spec[1])
    if k == "lit":
        return dec_term == ("lit", spec[1], spec[2], None)
    if k == "tlit":
        _, lex, (dk, drank) = spec
        return dec_term[0] == "lit" and dec_term[1] == lex and dec_term[2] is None and denotes(dec_term[3], "datatype", dk, drank)
    if k == "qt":
        if dec_term[0] != "triple":
            return False
        return all_([term_ok(dec_term[1 + i], spec[1][i]) for i in range(3)])
    if k == "default":
        return dec_term == ("default",)
    return False


class _RdfTerms:
    """rdflib counterparts of the generic term constructors used by make_term"""

    @staticmethod
    def IRI(v):
        import rdflib
        return rdflib.URIRef(v)

    @staticmethod
    def BlankNode(v):
        import rdflib
        return rdflib.BNode(v)

    @staticmethod
    def Literal(lex, lang, dt):
        import rdflib
        return rdflib.Literal(lex, lang=lang, datatype=rdflib.URIRef(dt) if dt else None)

    @property
    def DefaultGraph(self):
        from rdflib.graph import DATASET_DEFAULT_GRAPH_ID
        return DATASET_DEFAULT_GRAPH_ID


def make_term(kind, ch, pos, tag):
    """-> (API term of the integration under test, spec, choices consumed)"""
    from pyjelly.integrations.generic import generic_sink as gs
    if P.get("integ") == "rdflib":
        gs = _RdfTerms()
    if kind == "iri":
        np_, mp, ep = shape("prefix")
        nn, mn, _ = shape("name")
        if np_ == 0:
            nk, nrank = choose_key("name", ch[pos], mn, 0, tag)
            # with prefixes disabled the name key must be the full IRI: use the key itself
            return gs.IRI(nk), ("iri", ("", 0), (nk, nrank)), 1
        pk, prank = choose_key("prefix", ch[pos], mp, ep, tag)
        nk, nrank = choose_key("name", ch[pos + 1], mn, 0, tag)
        return gs.IRI(pk + nk), ("iri", (pk, prank), (nk, nrank)), 2
    if kind == "bnode":
        return gs.BlankNode(f"b{tag}"), ("bnode", f"b{tag}"), 0
    if kind == "lit":
        return gs.Literal(f"v{tag}", "en" if tag % 2 else None, None), ("lit", f"v{tag}", "en" if tag % 2 else None), 0
    if kind == "tlit":
        nd, md, _ = shape("datatype")
        dk, drank = choose_key("datatype", ch[pos], md, 0, tag)
        return gs.Literal(f"v{tag}", None, dk), ("tlit", f"v{tag}", (dk, drank)), 1
    if kind == "default":
        return gs.DefaultGraph, ("default",), 0
    if kind.startswith("qt:"):
        inner = kind[3:].split(",")
        ts, specs, used = [], [], 0
        for i, ik in enumerate(inner):
            t, s, u = make_term(ik, ch, pos + used, tag * 10 + i)
            ts.append(t)
            specs.append(s)
            used += u
        return gs.Triple(*ts), ("qt", specs), used
    raise ValueError(kind)


def count_choices(kinds):
    n = 0
    for k in kinds:
        if k == "iri":
            n += 1 if P["tables"]["prefix"]["n"] == 0 else 2
        elif k == "tlit":
            n += 1
        elif k.startswith("qt:"):
            n += count_choices(k[3:].split(","))
    return n


def post_tab(kind, enc, dec, fresh_keys):
    """mirror + bounds after the statement (same formula as L-TAB-IND's post-invariant)"""
    n, m, e = shape(kind)
    if n == 0:
        return (len(enc.lookup.data) == 0) & (enc.last_assigned_index == 0)
    kf = KEYFN[kind]
    old = {kf(i, e): i for i in range(1, m + 1)}
    keys = list(enc.lookup.data.keys())
    m2 = len(keys)
    slots = list(dec.data)
    c = [m2 <= n, len(slots) == n, sum(1 for s in slots if s is not None) == m2, enc.lookup._evicting == (m2 == n)]
    for k in keys:
        idx = enc.lookup.data[k]
        c.append((1 <= idx) & (idx <= n))
        rk = old.get(k, 0)
        alts = []
        for p in range(n):
            s = slots[p]
            if s is None:
                continue
            if isinstance(s, K):
                if rk:
                    alts.append((idx == p + 1) & (s.rank == rk))
            elif str(s) == str(k):   # plain-str comparison: rdflib's URIRef.__eq__ is type-strict
                alts.append(idx == p + 1)
        c.append(any_(alts) if alts else False)
    c.append(dec.last_assigned_index == enc.last_assigned_index)
    if kind != "datatype":
        c.append(dec.last_reused_index == enc.last_reused_index)
    return all_(c)


def stmt(pn: List[int], rn: List[int], lan: int, lrn: int, pp: List[int], rp: List[int], lap: int, lrp: int,
         pd: List[int], rd: List[int], lad: int, lrd: int, ch: List[int]) -> bool:
    """
    pre: pre_stmt(pn, rn, lan, lrn, pp, rp, lap, lrp, pd, rd, lad, lrd, ch)
    post: _
    """
    kinds = P["kinds"]
    try:
        if P.get("integ") == "rdflib":
            from pyjelly.integrations.rdflib.serialize import RDFLibTermEncoder as GenericSinkTermEncoder
        else:
            from pyjelly.integrations.generic.serialize import GenericSinkTermEncoder
        nn, np_, nd = shape("name")[0], shape("prefix")[0], shape("datatype")[0]
        en, dn = build_pair("name", pn, rn, lan, lrn)
        ep_, dp = build_pair("prefix", pp, rp, lap, lrp)
        ed, dd = build_pair("datatype", pd, rd, lad, lrd)
        te = GenericSinkTermEncoder(lookup_preset=LookupPreset(max_names=8, max_prefixes=np_, max_datatypes=nd))
        te.names, te.prefixes, te.datatypes = en, ep_, ed
        # choices must be within range
        terms, specs, pos = [], [], 0
        for i, k in enumerate(kinds):
            t, s, u = make_term(k, ch, pos, i + 1)
            terms.append(t)
            specs.append(s)
            pos += u
        quad = len(kinds) == 4
        rep = [None] * 4
        repcls = P.get("rep") or [0] * len(kinds)   # 0 no previous, 1 previous == coming term, 2 previous differs
        other = make_term("bnode", ch, 0, 99)[0]
        for i in range(len(kinds)):
            if repcls[i] == 1:
                rep[i] = terms[i]
            elif repcls[i] == 2:
                rep[i] = other
        rows = (encode_quad if quad else encode_triple)(terms, te, rep)
        # ---- reader
        opts = ParserOptions(stream_types=StreamTypes(physical_type=2 if quad else 1, logical_type=0),
                             lookup_preset=LookupPreset(max_names=8, max_prefixes=np_, max_datatypes=nd),
                             params=StreamParameters())
        d = Decoder(adapter=HAdapter(opts))
        d.names, d.prefixes, d.datatypes = dn, dp, dd
        oneofs = ("subject", "predicate", "object", "graph")
        for i in range(len(kinds)):
            if repcls[i]:
                d.repeated_terms[oneofs[i]] = ("PREV", i)   # what the reader remembered for that slot
        out = None
        nrows = 0
        for row in rows:
            nrows += 1
            r = getattr(row, row.WhichOneof("row"))
            res = d.decode_row(r)
            if isinstance(r, (jelly.RdfTriple, jelly.RdfQuad)):
                out = res
        c = [out is not None and len(out) == len(kinds) + 1]
        if out is not None:
            stm_row = [getattr(r, r.WhichOneof("row")) for r in rows if r.WhichOneof("row") in ("triple", "quad")][0]
            for i in range(len(kinds)):
                if repcls[i] == 1:
                    # equal to the previous statement's term: elided on the wire, taken from the reader's memory
                    c.append(stm_row.WhichOneof(oneofs[i]) is None)
                    c.append(out[1 + i] == ("PREV", i))
                else:
                    c.append(stm_row.WhichOneof(oneofs[i]) is not None)
                    c.append(term_ok(out[1 + i], specs[i]))
        # every id on the wire within the declared sizes
        for row in rows:
            w = row.WhichOneof("row")
            if w in ("name", "prefix", "datatype"):
                size = {"name": nn, "prefix": np_, "datatype": nd}[w]
                c.append((0 <= getattr(row, w).id) & (getattr(row, w).id <= size))
        c.append(post_tab("name", en, dn, None))
        c.append(post_tab("prefix", ep_, dp, None))
        c.append(post_tab("datatype", ed, dd, None))
        if P.get("twin"):
            c.append(False)
        ok = all_(c)
    except Exception:  # noqa: BLE001
        ok = False
    return fin(M, ok, pn=pn, rn=rn, lan=lan, lrn=lrn, pp=pp, rp=rp, lap=lap, lrp=lrp, pd=pd, rd=rd, lad=lad, lrd=lrd, ch=ch)


def probe():
    """internal attributes this harness installs / reads (a refactor that renames them makes the unit SKIP, not fail)"""
    e = LookupEncoder(lookup_size=2)
    e.lookup.data, e.lookup._evicting, e.lookup.max_size, e.last_assigned_index, e.last_reused_index  # noqa: B018
    e.lookup.data.move_to_end
    d = LookupDecoder(lookup_size=2)
    d.data, d.last_assigned_index, d.last_reused_index, d.lookup_size  # noqa: B018
    d.data.maxlen
    from pyjelly.serialize.encode import TermEncoder
    t = TermEncoder()
    t.names, t.prefixes, t.datatypes  # noqa: B018
    Decoder.decode_row, Decoder.iter_rows  # noqa: B018
