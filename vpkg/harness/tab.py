"""L-TAB-*: one operation on a writer/reader lookup-table pair from an arbitrary invariant state.

Real functions driven (from /repo): Lookup.insert, Lookup.make_last_to_evict,
LookupEncoder.encode_entry_index / encode_term_index / encode_{name,prefix,datatype}_term_index,
LookupDecoder.assign_entry / at / decode_{name,prefix,datatype}_term_index.

Unit parameters (concrete, in P): kind in {name,prefix,datatype}; n = table size; m = resident
entries (0..n); e = LRU rank of the empty string among resident keys (0 = not resident; prefix only).
Symbolic: pi (key rank -> wire id), r (reader slot -> key rank), la, lr, j (next key).
"""
from __future__ import annotations

from collections import OrderedDict, deque
from typing import List

from pyjelly.parse.lookup import LookupDecoder
from pyjelly.serialize.lookup import LookupEncoder

from vpkg.hutil import all_, any_, fin

P: dict = {}
CEX = None
M = __name__


class K:
    """Opaque reader-slot content: 'the string whose LRU rank in the pre-state is `rank`'."""

    __slots__ = ("rank",)

    def __init__(self, rank):
        self.rank = rank


def key_of(i: int, e: int) -> str:
    return "" if i == e else f"k{i}"


def inv_pre(pi, r, la, lr) -> bool:
    kind, n, m, e = P["kind"], P["n"], P["m"], P["e"]
    c = [(1 <= pi[i]) & (pi[i] <= m) for i in range(m)]
    c += [(1 <= r[p]) & (r[p] <= m) for p in range(m)]
    c += [(pi[i] != p + 1) | (r[p] == i + 1) for i in range(m) for p in range(m)]
    if m < n:
        c.append(la == m)
    else:
        c.append((1 <= la) & (la <= n))
    mru = (lr == pi[m - 1]) if m > 0 else (lr == 0)
    if kind == "prefix" and (m == 0 or (m == 1 and e == 1)):
        c.append(mru | (lr == 0))
    else:
        c.append(mru)
    return all_(c)


def build(pi, r, la, lr):
    n, m, e = P["n"], P["m"], P["e"]
    enc = LookupEncoder(lookup_size=n)
    enc.lookup.data = OrderedDict((key_of(i + 1, e), pi[i]) for i in range(m))
    enc.lookup._evicting = m == n
    enc.last_assigned_index = la
    enc.last_reused_index = lr
    dec = LookupDecoder(lookup_size=n)
    dec.data = deque([K(r[p]) for p in range(m)] + [None] * (n - m), maxlen=n)
    dec.last_assigned_index = la
    dec.last_reused_index = lr
    return enc, dec


def next_key(j):
    """j: -1 fresh empty string (only if '' not resident), 0 fresh non-empty, 1..m resident rank j."""
    m, e = P["m"], P["e"]
    if j == -1:
        return "", 0
    if j == 0:
        return "fresh", 0
    for i in range(1, m + 1):
        if j == i:
            return key_of(i, e), i
    raise AssertionError("unreachable")


def use(enc, dec, key):
    """One table use as TermEncoder performs it; returns (entry_id|None, ref_id, resolved)."""
    kind = P["kind"]
    entry = enc.encode_entry_index(key)
    if kind == "name":
        ref = enc.encode_name_term_index(key)
    elif kind == "prefix":
        ref = enc.encode_prefix_term_index(key)
    else:
        ref = enc.encode_datatype_term_index(key)
    if entry is not None:
        dec.assign_entry(index=entry, value=key)
    if kind == "name":
        got = dec.decode_name_term_index(ref)
    elif kind == "prefix":
        got = dec.decode_prefix_term_index(ref)
    else:
        got = dec.decode_datatype_term_index(ref)
    return entry, ref, got


def same(got, key, rank):
    if isinstance(got, K):
        return (got.rank == rank) if rank else False
    return got == key and (rank == 0 or key == "")


def holds(slot, key, oldrank):
    """Does reader slot content denote `key` (whose pre-state rank is oldrank, 0 = fresh)?"""
    if slot is None:
        return False
    if isinstance(slot, K):
        return (slot.rank == oldrank) if oldrank else False
    return oldrank == 0 and slot == key


def inv_post(enc, dec, oldrank_of):
    kind, n = P["kind"], P["n"]
    keys = list(enc.lookup.data.keys())
    m2 = len(keys)
    c = [m2 <= n, enc.lookup._evicting == (m2 == n), len(dec.data) == n]
    slots = list(dec.data)
    nonnull = sum(1 for s in slots if s is not None)
    c.append(nonnull == m2)
    for k in keys:
        idx = enc.lookup.data[k]
        c.append((1 <= idx) & (idx <= n))
        c.append(any_([(idx == p + 1) & holds(slots[p], k, oldrank_of.get(k, 0)) for p in range(n)]))
    la, lr = enc.last_assigned_index, enc.last_reused_index
    c.append(dec.last_assigned_index == la)
    c.append(dec.last_reused_index == lr)
    if m2 < n:
        c.append(la == m2)
        c += [slots[p] is None for p in range(m2, n)]
    else:
        c.append((1 <= la) & (la <= n))
    mru = (lr == enc.lookup.data[keys[-1]]) if m2 else (lr == 0)
    if kind == "prefix" and (m2 == 0 or (m2 == 1 and keys[0] == "")):
        c.append(mru | (lr == 0))
    else:
        c.append(mru)
    return all_(c)


def pre_j(j) -> bool:
    m, e = P["m"], P["e"]
    lo = -1 if (P["kind"] == "prefix" and e == 0) else 0
    return lo <= j <= m


def ind_step(pi: List[int], r: List[int], la: int, lr: int, j: int) -> bool:
    """
    pre: len(pi) == P["m"] and len(r) == P["m"] and pre_j(j)
    pre: inv_pre(pi, r, la, lr)
    post: _
    """
    n, m, e = P["n"], P["m"], P["e"]
    try:
        enc, dec = build(pi, r, la, lr)
        key, rank = next_key(j)
        entry, ref, got = use(enc, dec, key)
        oldrank = {key_of(i, e): i for i in range(1, m + 1)}
        c = [same(got, key, rank)]
        c.append((0 <= ref) & (ref <= n))
        if entry is not None:
            c.append((0 <= entry) & (entry <= n))
        if P.get("twin"):
            c.append(False)
        else:
            c.append(inv_post(enc, dec, oldrank))
        ok = all_(c)
    except Exception:  # noqa: BLE001
        ok = False
    return fin(M, ok, pi=pi, r=r, la=la, lr=lr, j=j)


def zero_step(pi: List[int], r: List[int], la: int, lr: int, j: int) -> bool:
    """
    pre: len(pi) == P["m"] and len(r) == P["m"] and pre_j(j)
    pre: inv_pre(pi, r, la, lr)
    post: _
    """
    kind, n, m, e = P["kind"], P["n"], P["m"], P["e"]
    try:
        enc, dec = build(pi, r, la, lr)
        key, rank = next_key(j)
        entry = enc.encode_entry_index(key)
        idx = enc.lookup.data[key]
        c = []
        # entry row emitted <=> key was not resident
        c.append((entry is None) == (rank != 0))
        if entry is not None:
            c.append((entry == 0) == (idx == la + 1))
            c.append((entry == 0) | (entry == idx))
        if kind == "name":
            ref = enc.encode_name_term_index(key)
            c.append((ref == 0) == (idx == lr + 1))
        elif kind == "prefix":
            ref = enc.encode_prefix_term_index(key)
            c.append((ref == 0) == ((idx == lr) | ((lr == 0) & (key == ""))))
        else:
            ref = enc.encode_datatype_term_index(key)
            c.append(ref != 0)
        c.append((ref == 0) | (ref == idx))
        if P.get("twin"):
            c.append(False)
        ok = all_(c)
    except Exception:  # noqa: BLE001
        ok = False
    return fin(M, ok, pi=pi, r=r, la=la, lr=lr, j=j)


# ---------------------------------------------------------------------------------------
# Native replay through the public API only: reach the pre-state (m, pi, la, lr) by a
# constructive history on fresh LookupEncoder/LookupDecoder objects, then perform the step.

def history_for(n, m, e, pi, la, lr):
    """Keys to use, in order, so that the real code reaches the invariant state (if it behaves)."""
    keys = [key_of(i + 1, e) for i in range(m)]
    by_idx = sorted(range(m), key=lambda i: pi[i])
    hist = []
    if m < n:
        hist += [keys[i] for i in by_idx]  # fill: index order = insertion order
    else:
        # evict phase with last_assigned = la: fill with a dummy at slot `la`, then evict it.
        order = []
        for i in by_idx:
            order.append("dummy" if pi[i] == la else keys[i])
        hist += order
        hist += [k for k in order if k != "dummy"]  # touch all but dummy -> dummy is LRU
        hist.append(keys[[i for i in range(m) if pi[i] == la][0]])  # insert: reuses index la
    hist += keys  # establish LRU order (rank 1 first ... rank m last)
    return hist


def replay_step(pi, r, la, lr, j, fn="ind_step") -> bool:
    """True iff the property holds on the public-API replay of the counterexample."""
    kind, n, m, e = P["kind"], P["n"], P["m"], P["e"]
    enc = LookupEncoder(lookup_size=n)
    dec = LookupDecoder(lookup_size=n)
    special = kind == "prefix" and lr == 0 and m == 1 and e == 1
    hist = [""] if special else history_for(n, m, e, pi, la, lr)
    for key in hist:
        entry, ref, got = use(enc, dec, key)
        if got != key:
            return False
    # did we reach the requested state?
    st_ok = (
        list(enc.lookup.data.items()) == [(key_of(i + 1, e), pi[i]) for i in range(m)]
        and enc.last_assigned_index == la and enc.last_reused_index == lr
    )
    if not st_ok:
        raise LookupError("pre-state not reached by constructive history")
    key, rank = next_key(j)
    la0, lr0 = enc.last_assigned_index, enc.last_reused_index
    resident = key in enc.lookup.data
    entry, ref, got = use(enc, dec, key)
    if got != key:
        return False
    if not (0 <= ref <= n) or (entry is not None and not (0 <= entry <= n)):
        return False
    if len(enc.lookup.data) > n:
        return False
    # mirror check
    for k, idx in enc.lookup.data.items():
        if not (1 <= idx <= n) or dec.data[idx - 1] != k:
            return False
    if fn == "zero_step":
        idx = enc.lookup.data[key]
        if (entry is None) != resident:
            return False
        if entry is not None and ((entry == 0) != (idx == la0 + 1)):
            return False
        if kind == "name" and ((ref == 0) != (idx == lr0 + 1)):
            return False
        if kind == "prefix" and ((ref == 0) != (idx == lr0 or (lr0 == 0 and key == ""))):
            return False
        if kind == "datatype" and ref == 0:
            return False
    return True


# ---------------------------------------------------------------------------------------
# H-TAB-BMC: bounded histories from the real initial state, public methods only.

def bmc_alphabet():
    n, kind = P["n"], P["kind"]
    al = [f"a{i}" for i in range(n + 2)]
    if kind == "prefix":
        al[0] = ""
    return al


def pre_bmc(ks) -> bool:
    L, n = P["L"], P["n"]
    if len(ks) != L:
        return False
    return all_([(0 <= k) & (k <= n + 1) for k in ks])


def bmc(ks: List[int]) -> bool:
    """
    pre: pre_bmc(ks)
    post: _
    """
    n, kind = P["n"], P["kind"]
    al = bmc_alphabet()
    ok = True
    try:
        enc = LookupEncoder(lookup_size=n)
        dec = LookupDecoder(lookup_size=n)
        for pos, k in enumerate(list(P.get("fixed", [])) + list(ks)):
            key = None
            for i in range(n + 2):
                if k == i:
                    key = al[i]
            entry, ref, got = use(enc, dec, key)
            if got != key or not (0 <= ref <= n) or (entry is not None and not (0 <= entry <= n)):
                ok = False
            if len(enc.lookup.data) > n or sum(1 for s in dec.data if s is not None) > n:
                ok = False
            if enc.last_assigned_index != dec.last_assigned_index or enc.last_reused_index != dec.last_reused_index:
                ok = False
        if P.get("twin"):
            ok = False
    except Exception:  # noqa: BLE001
        ok = False
    return fin(M, ok, ks=ks)


# ---------------------------------------------------------------------------------------
# L-READ-IND / L-READ-REJECT: the reader alone, from an ARBITRARY state (not only writer-mirrored ones),
# one entry row (optional) + one reference, ids symbolic in [0, n+1]; compared with the spec's rules.

def read_step(filled: List[bool], la: int, lr: int, has_entry: bool, eid: int, ref: int) -> bool:
    """
    pre: len(filled) == P["n"] and 0 <= la <= P["n"] and 0 <= lr <= P["n"] and 0 <= eid <= P["n"] + 1 and 0 <= ref <= P["n"] + 1
    post: _
    """
    kind, n = P["kind"], P["n"]
    try:
        dec = LookupDecoder(lookup_size=n)
        slots = [(f"v{p}" if filled[p] else None) for p in range(n)]  # forks on filled[p]: 2^n shapes
        dec.data = deque(slots, maxlen=n)
        dec.last_assigned_index = la
        dec.last_reused_index = lr
        # ---- spec (pure Python on the same symbolic integers)
        spec_slots = list(slots)
        s_la, s_lr = la, lr
        legal = True
        if has_entry:
            i = eid if eid != 0 else s_la + 1
            if 1 <= i <= n:
                for p in range(n):
                    if i == p + 1:
                        spec_slots[p] = "NEW"
                s_la = i
            else:
                legal = False
        expect = None
        if legal:
            if kind == "name":
                i = ref if ref != 0 else s_lr + 1
            elif kind == "prefix":
                i = ref if ref != 0 else s_lr
            else:
                i = ref
            if kind == "prefix" and i == 0:
                expect = ""
            elif kind == "datatype" and ref == 0:
                legal = False
            elif 1 <= i <= n:
                for p in range(n):
                    if i == p + 1:
                        expect = spec_slots[p]
                if expect is None:
                    legal = False
                s_lr = i
            else:
                legal = False
        # ---- the real reader
        raised = False
        got = None
        try:
            if has_entry:
                dec.assign_entry(index=eid, value="NEW")
            if kind == "name":
                got = dec.decode_name_term_index(ref)
            elif kind == "prefix":
                got = dec.decode_prefix_term_index(ref)
            else:
                got = dec.decode_datatype_term_index(ref)
        except Exception:  # noqa: BLE001
            raised = True
        if legal:
            ok = (not raised) and got == expect and dec.last_assigned_index == s_la
            if kind != "datatype":
                ok = ok and dec.last_reused_index == s_lr
            ok = ok and list(dec.data) == spec_slots
        else:
            ok = raised
        if P.get("twin"):
            ok = False
    except Exception:  # noqa: BLE001
        ok = False
    return fin(M, ok, filled=filled, la=la, lr=lr, has_entry=has_entry, eid=eid, ref=ref)


# ---------------------------------------------------------------------------------------
# L-TAB-SPEC: the real writer against the SPEC's reader (association list), table size n a symbolic
# UNBOUNDED integer >= 1 (the writer only compares against it; nothing reaches C).

class SpecReader:
    def __init__(self, n):
        self.n, self.slots, self.la, self.lr = n, {}, 0, 0

    def entry(self, i, value):
        if i == 0:
            i = self.la + 1
        if not (1 <= i) or not (i <= self.n):
            raise ValueError("entry id outside table")
        self.slots = {k: v for k, v in self.slots.items() if not (k == i)}
        self.slots[i] = value
        self.la = i

    def get(self, i):
        if not (1 <= i) or not (i <= self.n):
            raise ValueError("reference outside table")
        for k, v in self.slots.items():
            if k == i:
                return v
        raise ValueError("reference to empty slot")

    def name(self, ref):
        i = ref if ref != 0 else self.lr + 1
        v = self.get(i)
        self.lr = i
        return v

    def prefix(self, ref):
        i = ref if ref != 0 else self.lr
        if i == 0:
            return ""
        v = self.get(i)
        self.lr = i
        return v

    def datatype(self, ref):
        if ref == 0:
            raise ValueError("datatype 0")
        return self.get(ref)


def spec(n: int, ks: List[int]) -> bool:
    """
    pre: n >= 1 and len(ks) == P["L"] and all(0 <= k <= 3 for k in ks)
    post: _
    """
    kind = P["kind"]
    al = ["", "a", "b", "c"] if kind == "prefix" else ["z", "a", "b", "c"]
    try:
        enc = LookupEncoder(lookup_size=n)
        rd = SpecReader(n)
        ok = True
        live = 0
        for k in list(P.get("fixed", [])) + list(ks):
            key = None
            for i in range(4):
                if k == i:
                    key = al[i]
            entry = enc.encode_entry_index(key)
            if kind == "name":
                ref = enc.encode_name_term_index(key)
            elif kind == "prefix":
                ref = enc.encode_prefix_term_index(key)
            else:
                ref = enc.encode_datatype_term_index(key)
            if entry is not None:
                ok = ok & (0 <= entry) & (entry <= n)
                rd.entry(entry, key)
            ok = ok & (0 <= ref) & (ref <= n)
            got = getattr(rd, kind)(ref)
            ok = ok & (got == key) & (len(rd.slots) <= n) & (len(enc.lookup.data) <= n)
        if P.get("twin"):
            ok = False
    except Exception:  # noqa: BLE001
        ok = False
    return fin(M, ok, n=n, ks=ks)


def probe():
    """internal attributes this harness installs / reads (a refactor that renames them makes the unit SKIP, not fail)"""
    e = LookupEncoder(lookup_size=2)
    e.lookup.data, e.lookup._evicting, e.lookup.max_size, e.last_assigned_index, e.last_reused_index  # noqa: B018
    e.lookup.data.move_to_end
    d = LookupDecoder(lookup_size=2)
    d.data, d.last_assigned_index, d.last_reused_index, d.lookup_size  # noqa: B018
    d.data.maxlen
