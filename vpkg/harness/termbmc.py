"""H-TERM-BMC: bounded histories of statements through the REAL stream objects (TripleStream/QuadStream with the
generic or rdflib term encoder) whose lookup tables are replaced by tiny ones (sizes 1..3, bypassing the
LookupPreset minimum of 8 names, which is C13's subject) -> rows -> real Decoder with equally tiny tables, and
the independent reference on the same rows. Catches state hidden OUTSIDE the tables (memo dicts, cached ids).
"""
from __future__ import annotations

from typing import List

from pyjelly.parse.lookup import LookupDecoder
from pyjelly.serialize.lookup import LookupEncoder

from vpkg import alpha, pj
from vpkg.hutil import all_, fin, notrace
from vpkg.ref import jelly as R
from vpkg.ref import wire
from vpkg.terms import norm_item

P: dict = {}
CEX = None
M = __name__

B = ("bnode", "b")
TERMS = {
    # object position alphabets
    "dt": [("lit", "v", None, "http://dt/0"), ("lit", "v", None, "http://dt/1"), ("lit", "v", None, "http://dt/2"), ("lit", "w", None, None)],
    "dt6": [("lit", "v", None, "http://dt/0"), ("lit", "v", None, "http://dt/1"), ("lit", "v", None, "http://dt/2"), ("lit", "v", None, "http://dt/3"),
            ("lit", "v", None, "http://dt/4"), ("lit", "w", None, None)],
    "names": [("iri", "http://p/a"), ("iri", "http://p/b"), ("iri", "http://p/c"), ("iri", "http://p/d")],
    "iri": [("iri", "http://p1/n1"), ("iri", "http://p1/n2"), ("iri", "http://p2/n1"), ("iri", "http://p2/n3"), ("iri", "n2"), ("iri", "http://p3/n3")],
}


def pre_bmc(sel) -> bool:
    if len(sel) != P["K"] - len(P.get("fixed", [])) - len(P.get("first", [])):
        return False
    n = len(TERMS[P["alph"]])
    return all_([(0 <= v) & (v < n) for v in sel])


def termbmc(sel: List[int]) -> bool:
    """
    pre: pre_bmc(sel)
    post: _
    """
    integ, sizes = P["integ"], P["sizes"]
    try:
        al = TERMS[P["alph"]]
        picks = [al[i] for i in P.get("fixed", [])] + [alpha.pick(v, al) for v in sel]
        # two table-using terms per statement when P["two"]: subject is the previous pick (generalized allows literals)
        items = []
        if P.get("three"):
            # three table-using terms per statement (s, p, o all IRIs): picks are consumed three at a time
            picks = [al[i] for i in P.get("first", [])] + picks[len(P.get("fixed", [])):] if P.get("first") else picks
            for j in range(0, len(picks) - 2, 3):
                items.append(("T", picks[j], picks[j + 1], picks[j + 2]))
                if len({picks[j], picks[j + 1], picks[j + 2]}) > sizes[0]:
                    return True   # the statement needs more names than the table holds: C18's subject, outside this claim
            picks = []
        for i, t in enumerate(picks):
            s = picks[i - 1] if (P.get("two") and i > 0 and integ == "generic") else B
            items.append(("T", s if (s[0] != "lit" or integ == "generic") else B, ("iri", "http://p1/n1") if P["alph"].startswith("dt") else B if integ == "generic" else ("iri", "n2"), t))
        want = [norm_item(i) for i in items]
        opts = pj.make_options(1, frame_size=P.get("fs", 1000), names=8, prefixes=sizes[1] or 0, datatypes=sizes[2] or 0,
                               generalized=integ == "generic", rdf_star=integ == "generic")
        stream = pj.gen_stream(1, opts) if integ == "generic" else pj.PHYS_STREAM[1].for_rdflib(opts)
        # tiny tables in place of the preset's (the names table cannot be declared < 8 through the public API)
        stream.encoder.names = LookupEncoder(lookup_size=sizes[0])
        conv = pj.terms.item_to_generic if integ == "generic" else pj.rdf_item
        stream.enroll()
        for it in items:
            stream.triple(conv(it))
        rows = list(stream.flow)
        # ---- reader: the real Decoder with the same tiny tables
        from pyjelly.parse.decode import Decoder, options_from_frame
        from pyjelly import jelly
        frame = jelly.RdfStreamFrame(rows=rows)
        popts = options_from_frame(frame, delimited=True)
        if integ == "generic":
            from pyjelly.integrations.generic.parse import GenericTriplesAdapter as Ad
            back = pj.terms.item_from_generic
        else:
            from pyjelly.integrations.rdflib.parse import RDFLibTriplesAdapter as Ad
            back = pj.terms.item_from_rdflib
        dec = Decoder(adapter=Ad(popts))
        dec.names = LookupDecoder(lookup_size=sizes[0])
        got = [norm_item(back(x)) for x in dec.iter_rows(frame)]
        ok = got == want
        # every wire id within the (tiny) sizes + independent reading by the reference
        with notrace():
            raw = [wire.dec_row(r.SerializeToString()) for r in rows]
            raw[0][1]["max_name_table_size"] = max(sizes[0], 8)
            rd = R.RefDecoder()
            for r in raw:
                rd.row(r)
            rd2 = [norm_item(i) for i in rd.items]
            for r in raw:
                if r[0] == "name" and not (0 <= r[1] <= sizes[0]):
                    ok = False
            ok = ok and rd2 == want
        if P.get("twin"):
            ok = False
    except Exception:  # noqa: BLE001
        ok = False
    return fin(M, ok, sel=sel)


def probe():
    opts = pj.make_options(1)
    st = pj.gen_stream(1, opts)
    st.encoder.names, st.flow, st.repeated_terms  # noqa: B018
    LookupEncoder(lookup_size=1).lookup.data  # noqa: B018
    from pyjelly.parse.decode import Decoder
    Decoder.iter_rows  # noqa: B018
    LookupDecoder(lookup_size=1).data  # noqa: B018
