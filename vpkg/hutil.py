"""Helpers shared by harnesses. Work both under CrossHair tracing and natively."""
from __future__ import annotations

import json
import os
import sys


def tracing() -> bool:
    """True when executed under CrossHair's tracer (symbolic run)."""
    if "crosshair" not in sys.modules:
        return False
    from crosshair.statespace import optional_context_statespace

    return optional_context_statespace() is not None


def concrete(v):
    """Deep-realise a possibly symbolic value (no-op natively)."""
    if "crosshair" not in sys.modules:
        return v
    from crosshair.core import deep_realize
    from crosshair.tracers import NoTracing

    with NoTracing():
        return deep_realize(v)


def realize(v):
    if "crosshair" not in sys.modules:
        return v
    from crosshair.core import realize as _r

    return _r(v)


class notrace:
    """Context manager: suspend symbolic tracing (for oracle / set-up code on concrete data)."""

    def __enter__(self):
        self.cm = None
        if tracing():
            from crosshair.tracers import NoTracing

            self.cm = NoTracing()
            self.cm.__enter__()
        return self

    def __exit__(self, *a):
        if self.cm is not None:
            return self.cm.__exit__(*a)
        return False


_ALARM = {"installed": False, "mod": None}
PATH_LIMIT_S = 25


def _on_alarm(signum, frame):
    """the current path has been running for PATH_LIMIT_S seconds of wall time inside the code under test"""
    mod = _ALARM["mod"]
    if mod is not None and getattr(mod, "OPEN", None) is not None:
        lst = getattr(mod, "OPEN_LIST", None)
        if lst is None:
            lst = mod.OPEN_LIST = []
        if len(lst) < 8:
            lst.append(mod.OPEN)
        mod.OPEN = None
    from crosshair.util import IgnoreAttempt
    raise IgnoreAttempt("path abandoned by the harness watchdog (possible hang); inputs kept for native replay")


def _arm(mod):
    import signal
    import threading
    if "crosshair" not in sys.modules or threading.current_thread() is not threading.main_thread():
        return
    if not _ALARM["installed"]:
        signal.signal(signal.SIGALRM, _on_alarm)
        _ALARM["installed"] = True
    _ALARM["mod"] = mod
    signal.alarm(PATH_LIMIT_S)


def _disarm():
    if _ALARM["installed"]:
        import signal
        signal.alarm(0)


def begin(mod_name: str, **inputs) -> None:
    """Mark the start of a path whose inputs are already concrete (pinned): if the path never reaches fin() - the code
    under test hangs and CrossHair abandons the path on its time limit - the inputs are kept for a native replay."""
    mod = sys.modules[mod_name]
    if getattr(mod, "OPEN", None) is not None:
        lst = getattr(mod, "OPEN_LIST", None)
        if lst is None:
            lst = mod.OPEN_LIST = []
        if len(lst) < 8:
            lst.append(mod.OPEN)
    mod.OPEN = {k: _plain(v) for k, v in inputs.items()}   # callers pass values that are already concrete Python objects
    side = os.environ.get("VP_SIDE_DIR")
    if side:
        # survives the death of this process (segfault, OOM kill): the master replays these inputs natively
        try:
            with open(os.path.join(side, f"{os.getpid()}.json"), "w") as f:
                json.dump(mod.OPEN, f)
        except OSError:
            pass
    if tracing():
        _arm(mod)


def fin(mod_name: str, ok, **inputs) -> bool:
    """Finish a harness path: on failure record the concrete inputs as counterexample."""
    _disarm()
    sys.modules[mod_name].OPEN = None
    if ok:  # forks on a symbolic bool: true branch = property holds on this path
        return True
    mod = sys.modules[mod_name]
    vals = concrete(inputs)
    mod.CEX = {k: _plain(v) for k, v in vals.items()}
    return False


def _plain(v):
    if isinstance(v, bool) or v is None:
        return v
    if isinstance(v, int):
        return int(v)
    if isinstance(v, str):
        return str(v)
    if isinstance(v, bytes):
        return {"__bytes__": v.hex()}
    if isinstance(v, (list, tuple)):
        return [_plain(x) for x in v]
    if isinstance(v, dict):
        return {str(k): _plain(x) for k, x in v.items()}
    return repr(v)


def all_(xs):
    """Non-forking conjunction (uses & so symbolic bools are combined into one formula)."""
    acc = True
    for x in xs:
        acc = acc & x
    return acc


def any_(xs):
    acc = False
    for x in xs:
        acc = acc | x
    return acc
