"""Helpers shared by harnesses. Work both under CrossHair tracing and natively."""
from __future__ import annotations

import sys


def tracing() -> bool:
    """True when executed under CrossHair's tracer (symbolic run)."""
    if "crosshair" not in sys.modules:
        return False
    from crosshair.statespace import optional_context_statespace

    return optional_context_statespace() is not None


def concrete(v):
    """Deep-realise a possibly symbolic value (no-op natively)."""
    if "crosshair" not in sys.modules:
        return v
    from crosshair.core import deep_realize
    from crosshair.tracers import NoTracing

    with NoTracing():
        return deep_realize(v)


def realize(v):
    if "crosshair" not in sys.modules:
        return v
    from crosshair.core import realize as _r

    return _r(v)


class notrace:
    """Context manager: suspend symbolic tracing (for oracle / set-up code on concrete data)."""

    def __enter__(self):
        self.cm = None
        if tracing():
            from crosshair.tracers import NoTracing

            self.cm = NoTracing()
            self.cm.__enter__()
        return self

    def __exit__(self, *a):
        if self.cm is not None:
            return self.cm.__exit__(*a)
        return False


def fin(mod_name: str, ok, **inputs) -> bool:
    """Finish a harness path: on failure record the concrete inputs as counterexample."""
    if ok:  # forks on a symbolic bool: true branch = property holds on this path
        return True
    mod = sys.modules[mod_name]
    vals = concrete(inputs)
    mod.CEX = {k: _plain(v) for k, v in vals.items()}
    return False


def _plain(v):
    if isinstance(v, bool) or v is None:
        return v
    if isinstance(v, int):
        return int(v)
    if isinstance(v, str):
        return str(v)
    if isinstance(v, bytes):
        return {"__bytes__": v.hex()}
    if isinstance(v, (list, tuple)):
        return [_plain(x) for x in v]
    if isinstance(v, dict):
        return {str(k): _plain(x) for k, x in v.items()}
    return repr(v)


def all_(xs):
    """Non-forking conjunction (uses & so symbolic bools are combined into one formula)."""
    acc = True
    for x in xs:
        acc = acc & x
    return acc


def any_(xs):
    acc = False
    for x in xs:
        acc = acc | x
    return acc
