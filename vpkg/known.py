"""Open known findings (committed file, never written at run time)."""
import json
import os

_P = os.path.join(os.path.dirname(os.path.dirname(os.path.abspath(__file__))), "known_findings.json")


def _load():
    if not os.path.exists(_P):
        return []
    return json.load(open(_P)).get("findings", [])


_OPEN = {f["id"] for f in _load() if f.get("status") == "open"}


def is_open(fid: str) -> bool:
    return fid in _OPEN
