"""Thin drivers around pyjelly's real public entry points, in terms of neutral items.
Everything here runs traced under CrossHair (it *is* the code under test plus glue)."""
from __future__ import annotations

import io

from pyjelly import jelly
from pyjelly.options import LookupPreset, StreamParameters
from pyjelly.serialize.ioutils import write_delimited, write_single
from pyjelly.serialize.streams import GraphStream, QuadStream, SerializerOptions, TripleStream

from vpkg import terms

PHYS_STREAM = {1: TripleStream, 2: QuadStream, 3: GraphStream}
FLAT_LOGICAL = {1: jelly.LOGICAL_STREAM_TYPE_FLAT_TRIPLES, 2: jelly.LOGICAL_STREAM_TYPE_FLAT_QUADS,
                3: jelly.LOGICAL_STREAM_TYPE_FLAT_QUADS}


def make_options(phys, frame_size=250, delimited=True, names=8, prefixes=8, datatypes=8, logical=None,
                 ns=False, stream_name="", flow=None, generalized=True, rdf_star=True, version=None):
    return SerializerOptions(
        flow=flow,
        frame_size=frame_size,
        logical_type=FLAT_LOGICAL[phys] if logical is None else logical,
        params=StreamParameters(generalized_statements=generalized, rdf_star=rdf_star, delimited=delimited,
                                namespace_declarations=ns, stream_name=stream_name, **({} if version is None else {"version": version})),
        lookup_preset=LookupPreset(max_names=names, max_prefixes=prefixes, max_datatypes=datatypes),
    )


def write_frames(frames, delimited=True) -> bytes:
    out = io.BytesIO()
    for f in frames:
        (write_delimited if delimited else write_single)(f, out)
    return out.getvalue()


# ---------------------------------------------------------------- generic integration
def gen_stream(phys, options):
    from pyjelly.integrations.generic.serialize import GenericSinkTermEncoder

    return PHYS_STREAM[phys](encoder=GenericSinkTermEncoder(lookup_preset=options.lookup_preset), options=options)


def gen_sink(items, bindings=()):
    from pyjelly.integrations.generic.generic_sink import IRI, GenericStatementSink

    sink = GenericStatementSink()
    for name, iri in bindings:
        sink.bind(name, IRI(iri))
    for it in items:
        sink.add(terms.item_to_generic(it))
    return sink


def gen_serialize(items, phys, options, entry="stream_frames", bindings=()):
    """entry: stream_frames | flat_frames | flat_file | grouped_file | sink"""
    from pyjelly.integrations.generic import serialize as gs

    delimited = options.params.delimited
    if entry == "stream_frames":
        stream = gen_stream(phys, options)
        return write_frames(gs.stream_frames(stream, (terms.item_to_generic(i) for i in items)), delimited)
    if entry == "stream_frames_sink":
        stream = gen_stream(phys, options)
        return write_frames(gs.stream_frames(stream, gen_sink(items, bindings)), delimited)
    if entry == "flat_frames":
        return write_frames(gs.flat_stream_to_frames((terms.item_to_generic(i) for i in items), options), delimited)
    out = io.BytesIO()
    if entry == "flat_file":
        gs.flat_stream_to_file((terms.item_to_generic(i) for i in items), out, options)
    elif entry == "grouped_file":
        gs.grouped_stream_to_file((s for s in [gen_sink(items, bindings)]), out, options=options)
    elif entry == "sink":
        gen_sink(items, bindings).serialize(out)
    else:
        raise ValueError(entry)
    return out.getvalue()


def gen_parse(data, entry="flat", strict=False):
    """-> list of neutral items (order preserved). entry: flat | grouped | to_graph"""
    from pyjelly.integrations.generic import parse as gp

    inp = io.BytesIO(data) if isinstance(data, (bytes, bytearray)) else data
    if entry == "flat":
        return [terms.item_from_generic(x) for x in gp.parse_jelly_flat(inp, logical_type_strict=strict)]
    if entry == "grouped":
        out = []
        for sink in gp.parse_jelly_grouped(inp, logical_type_strict=strict):
            out.extend(("NS", p, i._iri if isinstance(i._iri, str) else ("BAD", repr(i))) for p, i in sink.namespaces)
            out.extend(terms.item_from_generic(x) for x in sink)
        return out
    sink = gp.parse_jelly_to_graph(inp)
    out = [("NS", p, i._iri if isinstance(i._iri, str) else ("BAD", repr(i))) for p, i in sink.namespaces]
    return out + [terms.item_from_generic(x) for x in sink]


# ---------------------------------------------------------------- rdflib integration
def rdf_item(it):
    from pyjelly.integrations.rdflib.parse import Quad, Triple

    ts = [terms.to_rdflib(x) for x in it[1:]]
    return Triple(*ts) if it[0] == "T" else Quad(*ts)


def rdf_store(items, bindings=(), empty_graphs=()):
    import rdflib

    quads = any(i[0] == "Q" for i in items)
    g = rdflib.Dataset() if quads else rdflib.Graph()
    for eg in empty_graphs:
        g.graph(rdflib.URIRef(eg))      # an empty named graph
    for name, iri in bindings:
        g.bind(name, rdflib.URIRef(iri), override=True, replace=True)
    for it in items:
        ts = [terms.to_rdflib(x) for x in it[1:]]
        if quads:
            g.add((ts[0], ts[1], ts[2], g.get_context(ts[3])))
        else:
            g.add(tuple(ts))
    return g


def rdf_serialize(items, phys, options, entry="stream_frames", bindings=()):
    """entry: stream_frames | flat_frames | flat_file | grouped_file | graph_serialize"""
    from pyjelly.integrations.rdflib import serialize as rs

    delimited = options.params.delimited
    if entry == "stream_frames":
        stream = PHYS_STREAM[phys].for_rdflib(options)
        return write_frames(rs.stream_frames(stream, (rdf_item(i) for i in items)), delimited)
    if entry == "flat_frames":
        return write_frames(rs.flat_stream_to_frames((rdf_item(i) for i in items), options), delimited)
    out = io.BytesIO()
    if entry == "flat_file":
        rs.flat_stream_to_file((rdf_item(i) for i in items), out, options)
    elif entry == "grouped_file":
        rs.grouped_stream_to_file((s for s in [rdf_store(items, bindings)]), out, options=options)
    elif entry == "graph_serialize":
        from vpkg.hutil import notrace
        with notrace():  # rdflib store construction is concrete set-up (T3)
            store = rdf_store(items, bindings, empty_graphs=getattr(options, "_vp_empty_graphs", ()))
        stream = PHYS_STREAM[phys].for_rdflib(options)
        store.serialize(out, format="jelly", stream=stream, options=options)
    elif entry == "graph_serialize_stream_only":
        # the caller hands over a pre-built stream and NO options (they are then guessed by the serializer)
        from vpkg.hutil import notrace
        with notrace():
            store = rdf_store(items, bindings)
        stream = PHYS_STREAM[phys].for_rdflib(options)
        store.serialize(out, format="jelly", stream=stream)
    else:
        raise ValueError(entry)
    return out.getvalue()


def rdf_parse(data, entry="flat", strict=False, quads=True):
    from pyjelly.integrations.rdflib import parse as rp

    inp = io.BytesIO(data) if isinstance(data, (bytes, bytearray)) else data
    if entry == "flat":
        return [terms.item_from_rdflib(x) for x in rp.parse_jelly_flat(inp, logical_type_strict=strict)]
    if entry == "grouped":
        out = []
        for g in rp.parse_jelly_grouped(inp, logical_type_strict=strict):
            out.extend(store_items(g))
        return out
    if entry == "to_graph":
        return store_items(rp.parse_jelly_to_graph(inp))
    if entry == "graph_parse":
        import rdflib

        g = rdflib.Dataset() if quads else rdflib.Graph()
        g.parse(inp, format="jelly")
        return store_items(g)
    raise ValueError(entry)


def store_items(g):
    import rdflib

    if isinstance(g, rdflib.Dataset):
        return [("Q",) + tuple(terms.from_rdflib(y) for y in q) for q in g.quads()]
    return [("T",) + tuple(terms.from_rdflib(y) for y in t) for t in g]
