"""Property -> work units (per tier), bounds, assumptions."""
from __future__ import annotations

COMMON_ASSUMPTIONS = [
    "T1: CPython 3.12 semantics as modelled by CrossHair 0.0.110 + z3 (cross-checked by the sampling pass: same harness, concrete inputs, CrossHair vs native)",
    "T2: protobuf (upb) executes concretely: field/oneof semantics, deterministic serialisation, parse/parse_length_prefixed",
    "T5: pyjelly is data-independent w.r.t. string content outside the content tests listed in DESIGN.md 2.6 (alphabets have a representative on each side)",
    "claims are about /repo's Python sources under CPython; the mypyc-compiled build is outside the claim",
]

SPEC: dict = {}
_UNITS: dict = {}


def prop(pid, **spec):
    def deco(fn):
        SPEC[pid] = spec
        _UNITS[pid] = fn
        return fn
    return deco


def units(pid, tier):
    return _UNITS[pid](tier)


def U(uid, module, fn, params=None, timeout=60, **kw):
    d = {"id": uid, "module": "vpkg.harness." + module, "fn": fn, "params": params or {}, "timeout": timeout}
    d.update(kw)
    return d


def twin(u):
    t = dict(u)
    t["id"] = u["id"] + "#twin"
    t["params"] = dict(u["params"], twin=True)
    t["expect"] = "REFUTED"
    t["timeout"] = min(60, u["timeout"])
    return t


def sample_units(pid, tier, decide):
    """One sampling unit per distinct harness function (first unit of each), k concrete inputs."""
    seen = {}
    for u in decide:
        key = (u["module"], u["fn"])
        if not u.get("no_sample"):
            if SPEC.get(pid, {}).get("sample_every_unit"):
                key = key + (u["id"],)
            seen[key] = u  # last unit of each harness function (largest parameters)
    k = SPEC.get(pid, {}).get("sample_k") or (6 if tier == "quick" else 20)
    return [dict(u, id="sample:" + u["id"], mode="sample", k=k, timeout=30) for u in seen.values()]


def matches_known(pid, unit, rec, findings):
    for f in findings:
        sig = f.get("signature") or {}
        if not (sig.get("inputs") or sig.get("params")):
            continue  # findings with a computed signature are excluded inside the harness, never here
        if sig.get("fn") and sig["fn"] != unit["fn"]:
            continue
        if all(rec["inputs"].get(k) == v for k, v in (sig.get("inputs") or {}).items()) and \
           all((unit.get("params") or {}).get(k) == v for k, v in (sig.get("params") or {}).items()):
            return True
    return False


# =========================================================================================
from vpkg.props_defs import *  # noqa: E402,F401,F403
