from __future__ import annotations

from vpkg.props import U, prop, twin

TAB_FUNCS = [
    "pyjelly/serialize/lookup.py:Lookup.insert", "pyjelly/serialize/lookup.py:Lookup.make_last_to_evict",
    "pyjelly/serialize/lookup.py:LookupEncoder.encode_entry_index", "pyjelly/serialize/lookup.py:LookupEncoder.encode_term_index",
    "pyjelly/serialize/lookup.py:LookupEncoder.encode_name_term_index", "pyjelly/serialize/lookup.py:LookupEncoder.encode_prefix_term_index",
    "pyjelly/serialize/lookup.py:LookupEncoder.encode_datatype_term_index",
    "pyjelly/parse/lookup.py:LookupDecoder.__init__", "pyjelly/parse/lookup.py:LookupDecoder.assign_entry", "pyjelly/parse/lookup.py:LookupDecoder.at",
    "pyjelly/parse/lookup.py:LookupDecoder.decode_name_term_index", "pyjelly/parse/lookup.py:LookupDecoder.decode_prefix_term_index",
    "pyjelly/parse/lookup.py:LookupDecoder.decode_datatype_term_index",
]


def tab_units(fn, ns, timeout):
    out = []
    for kind in ("name", "prefix", "datatype"):
        for n in ns:
            for m in range(0, n + 1):
                es = range(0, m + 1) if kind == "prefix" else [0]
                for e in es:
                    out.append(U(f"{fn}:{kind}:n{n}:m{m}:e{e}", "tab", fn, dict(kind=kind, n=n, m=m, e=e),
                                 timeout=timeout, replay_fn="replay_step"))
    return out


@prop("C05",
      functions=TAB_FUNCS,
      bounds={"quick": {"table_size_n": "1..4", "fill_level_m": "0..n (all)", "history_length": "any (inductive step from arbitrary invariant state)"},
              "thorough": {"table_size_n": "1..8", "fill_level_m": "0..n (all)", "history_length": "any (inductive step)"}},
      outside="table sizes beyond the bound; composition of step lemmas into 'all histories' is a paper argument (DESIGN.md 4)",
      explanation="L-TAB-BASE + L-TAB-IND: one table use from an arbitrary symbolic writer/reader state satisfying the representation invariant; H-TAB-BMC: bounded histories from the real initial state",
      assumptions=["representation invariant I_tab (DESIGN.md 4) — every state satisfying it is reachable, checked by constructive-history replay"])
def c05(tier):
    ns = [1, 2, 3, 4] if tier == "quick" else [1, 2, 3, 4, 5, 6, 7, 8]
    us = tab_units("ind_step", ns, 120 if tier == "quick" else 900)
    tw = [twin(u) for u in us if u["params"]["n"] == 2]
    L = 4 if tier == "quick" else 6
    bm = []
    for kind in ("name", "prefix", "datatype"):
        for n in (1, 2, 3):
            for f in range(n + 2):
                bm.append(U(f"bmc:{kind}:n{n}:L{L}:f{f}", "tab", "bmc", dict(kind=kind, n=n, L=L - 1, fixed=[f]), timeout=300))
    tw += [twin(bm[0]), twin(bm[-1])]
    sp = spec_units(tier)
    tb = termbmc_units(tier)
    return us + bm + sp + tb + tw + [twin(sp[-1]), twin(tb[0])]


# ---------------------------------------------------------------------------------------------
def pipe_units(tag, mode, tier, integ="generic", physs=(1, 2, 3), timeout=None):
    timeout = timeout or (120 if tier == "quick" else 900)
    from vpkg import alpha
    out = []
    gen = integ == "generic"
    for phys in physs:
        spines = (alpha.SPINES if gen else alpha.RSPINES)[phys]
        if gen:
            alph = ["gS", "gP", "gO", "gG"] if tier == "thorough" else ["gS3", "gP", "gO5", "gG3"]
        else:
            alph = ["rS", "rP", "rO" if tier == "thorough" else "rO5", "rG"]
        entry = {1: "flat_file", 2: "flat_file", 3: "stream_frames"}[phys]
        if not gen and tag == "rdf":
            entry = "graph_serialize"
        presets = [(8, 8, 8, True), (8, 3 if phys == 1 else 4, 2, True), (9, 0, 2, False)]
        if tier == "quick":
            presets = presets[1:]
        for sp in range(len(spines)):
            for s2 in range(len(alpha.ALPH[alph[0]])):
                for (nm, pf, dt, delim) in presets:
                    if tier == "quick" and gen and (sp + s2) % 2 == (0 if delim else 1):
                        continue
                    if tier == "quick" and not gen and sp != s2 % len(spines):
                        continue
                    e = entry if (delim or entry == "graph_serialize") else ("flat_frames" if phys != 3 else "stream_frames")
                    fixeds = [[s2]] if ((phys == 1 or not delim) and gen) else [[s2, p2] for p2 in range(len(alpha.ALPH[alph[1]]))]
                    for fx in fixeds:
                        out.append(U(f"{tag}:{integ}:p{phys}:sp{sp}:f{'.'.join(map(str, fx))}:t{nm}-{pf}-{dt}:d{int(delim)}", "pipe", "pipe",
                                     dict(integ=integ, phys=phys, entry=e, names=nm, prefixes=pf, datatypes=dt, delimited=delim,
                                          spine=sp, fixed=fx, alph=alph, K=2, mode=mode, setcmp=not gen,
                                          pentry="graph_parse" if tag == "rdf" and delim else ("to_graph" if tag == "rdf" else "flat")), timeout=timeout))
    return out


PIPE_FUNCS = ["pyjelly/serialize/encode.py:*", "pyjelly/serialize/lookup.py:*", "pyjelly/serialize/streams.py:*", "pyjelly/serialize/flows.py:*",
              "pyjelly/serialize/ioutils.py:*", "pyjelly/parse/decode.py:*", "pyjelly/parse/lookup.py:*", "pyjelly/parse/ioutils.py:*",
              "pyjelly/integrations/generic/serialize.py:*", "pyjelly/integrations/generic/parse.py:*", "pyjelly/integrations/generic/generic_sink.py:*"]


@prop("C01", functions=PIPE_FUNCS + TAB_FUNCS,
      bounds={"quick": {"statements": 2, "frame_size": "symbolic, every integer >= 1", "physical": "TRIPLES, QUADS, GRAPHS", "tables": "(8,3|4,2) delimited, (9,0,2) non-delimited",
                        "alphabet": "reduced class alphabet (vpkg/alpha.py gS3,gP,gO5,gG3), statement 1 from 4 spines"},
              "thorough": {"statements": "2 with the full class alphabet; 3 (spine, one of three fixed shapes, symbolic third) with the reduced alphabet", "frame_size": "symbolic, every integer >= 1", "tables": "(8,8,8),(8,3|4,2),(9,0,2)"}},
      outside="more than 2 statements end-to-end (covered per table by the inductive lemmas of C05), strings outside the alphabets (T5), name-table evictions end-to-end",
      explanation="H-PIPE-GEN: real generic serializer entry points -> bytes -> real generic parser, list equality; plus L-SPLIT on a symbolic string")
def c01(tier):
    us = pipe_units("pipe", "roundtrip", tier)
    us.append(twin(us[0]))
    us.append(twin(us[-2]))
    sp = U("split", "split", "split", dict(maxlen=4 if tier == "quick" else 6), timeout=60 if tier == "quick" else 600)
    if tier != "quick":
        # three statements end to end: statement 1 = spine, statement 2 = one of six fixed shapes, statement 3 symbolic
        from vpkg import alpha as _a
        alph = ["gS3", "gP", "gO5", "gG3"]
        mids = [[0, 0, 0], [1, 1, 2], [2, 3, 6]]
        for phys in (1, 2):
            for spi in range(len(_a.SPINES[phys])):
                for mid in mids:
                    fx = mid if phys == 1 else mid + [mid[0] % 3]
                    us.append(U(f"pipe3:generic:p{phys}:sp{spi}:m{''.join(map(str, fx))}", "pipe", "pipe",
                                dict(integ="generic", phys=phys, entry="flat_file", names=8, prefixes=4, datatypes=2, delimited=True,
                                     spine=spi, fixed=fx, alph=alph, K=3, mode="roundtrip", setcmp=False, pentry="flat"), timeout=1800))
    st = stmt_units(tier)
    tb = [u for u in termbmc_units(tier, alphs=("iri",)) if u["params"]["integ"] == "generic" and u["params"].get("sizes") in ([2, 1, 2], [2, 3, 1])]
    return us + [sp, twin(sp)] + st + tb + [twin(st[0]), twin(st[-1])]


RDF_FUNCS = ["pyjelly/integrations/rdflib/serialize.py:*", "pyjelly/integrations/rdflib/parse.py:*", "pyjelly/serialize/streams.py:*", "pyjelly/serialize/encode.py:*", "pyjelly/parse/decode.py:*"]


@prop("C02", functions=RDF_FUNCS,
      bounds={"quick": {"statements": 2, "frame_size": "symbolic >= 1", "physical": "TRIPLES (Graph), QUADS and GRAPHS (Dataset)", "entry": "Graph.serialize(format='jelly') / Graph.parse, parse_jelly_to_graph"},
              "thorough": {"statements": 2, "frame_size": "symbolic >= 1", "tables": "three presets"}},
      outside="rdflib's own literal normalisation (trusted T3); more than 2 statements; strings outside the alphabet",
      explanation="H-PIPE-RDF: rdflib Graph/Dataset -> real rdflib serializer plugin -> bytes -> real rdflib parser plugin; set equality of triples/quads")
def c02(tier):
    us = pipe_units("rdf", "roundtrip", tier, integ="rdflib")
    eg = []
    for u in us:
        if u["params"]["phys"] == 3 and u["params"]["delimited"] and u["params"]["spine"] == 0:
            v = dict(u, id=u["id"] + ":empty-graph", params=dict(u["params"], empty_graph="http://e/g"))
            eg.append(v)
    st = [u for u in stmt_units(tier) if u["params"].get("integ") == "rdflib"]
    import importlib
    m = importlib.import_module("vpkg.harness.stmt")
    tables = {"name": dict(n=2, m=0), "prefix": dict(n=0, m=0, e=0), "datatype": dict(n=3, m=3)}
    m.P = {"tables": tables}
    st.append(U("stmt:rdflib:bnode|iri|tlit:d3.3", "stmt", "stmt", dict(kinds=["bnode", "iri", "tlit"], tables=tables, nchoices=m.count_choices(["bnode", "iri", "tlit"]), integ="rdflib", rep=None), timeout=600, no_sample=True))
    tb = [u for u in termbmc_units(tier, alphs=("dt",)) if u["params"]["integ"] == "rdflib"]
    return us + eg + st + tb + [twin(us[0])]


@prop("C03", functions=PIPE_FUNCS + RDF_FUNCS,
      bounds={"quick": {"statements": 2, "frame_size": "symbolic >= 1", "physical": "all three", "integrations": "generic (reduced alphabet), rdflib (one spine per subject)"},
              "thorough": {"statements": 2, "frame_size": "symbolic >= 1", "alphabet": "full"}},
      outside="as C01; the reference decoder (vpkg/ref) is my reading of the Jelly spec (T4)",
      explanation="L-TAB-SPEC: the real table writer against the spec's reader with the table size a symbolic UNBOUNDED integer (histories <= 4/5 uses over 4 keys); bytes written by the real serializers are decoded by the independent reference codec only (no pyjelly, no rdf_pb2): options first, ids within declared sizes, zero-delta rules, complete first statement/quoted triples, row kinds per physical type, namespace rows only in v2; result must equal the input",
      assumptions=["T4: reference codec validated against the repository's fixtures at every run (vpkg.ref.selftest)"])
def c03(tier):
    us = pipe_units("ref", "ref", tier)
    if tier != "quick":
        us = [u for u in us if (u["params"]["names"], u["params"]["prefixes"]) != (8, 8)]   # C01 thorough covers the roomy preset
    r = pipe_units("refrdf", "ref", tier, integ="rdflib")
    if tier != "quick":
        r = [u for u in r if u["params"]["phys"] != 3 or u["params"]["spine"] == u["params"]["fixed"][0] % 3]
    for u in r:
        u["params"]["entry"] = {1: "flat_file", 2: "flat_file", 3: "stream_frames"}[u["params"]["phys"]] if u["params"]["delimited"] else "stream_frames"
        u["params"]["setcmp"] = u["params"]["phys"] == 3  # rdflib's GRAPHS path goes through a Dataset (a set)
        u["timeout"] = 300 if tier == "quick" else 1200
    if tier == "quick":
        r = [u for u in r if u["params"]["phys"] != 3 or u["params"]["fixed"][0] == 0]
    sp = spec_units(tier)
    tb = termbmc_units(tier, alphs=("dt",))
    # namespace rows only in version-2 streams, whatever version the caller passes explicitly
    nsu = []
    for integ in ("generic", "rdflib"):
        for ev in (1, 2):
            nsu.append(U(f"nsver:{integ}:v{ev}", "ns", "ns", dict(integ=integ, phys=1, names=8, prefixes=8, datatypes=8, nb=1, fixl=1,
                         entry="stream_frames_sink" if integ == "generic" else "graph_serialize", pentry="flat", reser=False, setcmp=(integ == "rdflib"),
                         explicit_version=ev), timeout=600))
    gs = [U(f"ref-grouped_ser:{integ}:p3", "reframe", "grouped_ser", dict(integ=integ, phys=3), timeout=600) for integ in ("generic", "rdflib")]
    return us + r + sp + tb + nsu + gs + [twin(us[0]), twin(r[0]), twin(sp[0])]


@prop("C19", functions=PIPE_FUNCS + TAB_FUNCS,
      bounds={"quick": {"table lemma": "n 1..4 all fill levels (inductive)", "streams": "2 statements, frame_size symbolic"},
              "thorough": {"table lemma": "n 1..8", "streams": "2 statements, full alphabet"}},
      outside="as C01/C05",
      explanation="L-TAB-ZERO: from any invariant table state, entry emitted iff key not resident, zero forms iff the delta rule makes them equivalent; audit counters of the reference decoder on every H-PIPE stream: redundant entries, missed zero forms, missed elisions all 0; one graph start per maximal run of equal graph names")
def c19(tier):
    ns = [1, 2, 3, 4] if tier == "quick" else [1, 2, 3, 4, 5, 6, 7, 8]
    z = tab_units("zero_step", ns, 120 if tier == "quick" else 900)
    us = pipe_units("audit", "audit", tier)
    return z + us + [twin(z[5]), twin(z[-1]), twin(us[0])]


def conf_units(tier):
    out = []
    Ks = [2] if tier == "quick" else [1, 2, 3]
    for K in Ks:
      for fl in range(8):
        for integ in ("generic", "rdflib"):
            for phys in (1, 2, 3):
                out.append(U(f"conf:{integ}:stream_frames:p{phys}:fl{fl}:K{K}", "conf", "conf", dict(integ=integ, entry="stream_frames", phys=phys, K=K, flowsel=fl,
                             setcmp=(integ == "rdflib" and phys == 3)), timeout=300))
                if integ == "generic":
                    out.append(U(f"conf:{integ}:stream_frames_sink:p{phys}:fl{fl}:K{K}", "conf", "conf", dict(integ=integ, entry="stream_frames", sink=True, phys=phys, K=K, flowsel=fl,
                                 ns_sym=True), timeout=300))
            for phys in (1, 2):
                for entry in ("flat_file", "flat_frames", "grouped_file"):
                    out.append(U(f"conf:{integ}:{entry}:in{phys}:fl{fl}:K{K}", "conf", "conf", dict(integ=integ, entry=entry, phys=phys, K=K, flowsel=fl,
                                 projection="triples-if-triplestream", setcmp=(integ == "rdflib" and entry == "grouped_file"),
                                 ns_sym=(entry == "grouped_file" and (integ == "generic" or tier != "quick"))), timeout=300))
        for phys in (1, 2):
            out.append(U(f"conf:rdflib:graph_serialize:in{phys}:fl{fl}:K{K}", "conf", "conf", dict(integ="rdflib", entry="graph_serialize", phys=phys, K=K, flowsel=fl,
                         projection="triples-if-triplestream", setcmp=True), timeout=300))
            if fl in (0, 2):
                out.append(U(f"conf:rdflib:graph_serialize_stream_only:in{phys}:fl{fl}:K{K}", "conf", "conf", dict(integ="rdflib", entry="graph_serialize_stream_only", phys=phys, K=K, flowsel=fl,
                             projection="triples-if-triplestream", setcmp=True), timeout=300))
    return out


@prop("C06", functions=["pyjelly/serialize/streams.py:Stream.__init__", "pyjelly/serialize/streams.py:Stream.infer_flow", "pyjelly/serialize/flows.py:*",
                        "pyjelly/integrations/generic/serialize.py:*", "pyjelly/integrations/rdflib/serialize.py:*", "pyjelly/options.py:StreamTypes.__post_init__"],
      bounds={"quick": {"lattice": "3 stream classes x 8 logical types x delimited x {inferred + 7 FrameFlow classes} x entry points of both integrations (generator and sink/store inputs, namespace declarations on/off for the latter); frame_size symbolic (all integers >= 1); 2 statements"},
              "thorough": {"lattice": "same, 1..3 statements"}},
      outside="user-defined FrameFlow subclasses; inputs longer than 3 statements (the flows only compare len(flow) with frame_size: covered by the symbolic frame_size)",
      explanation="H-CONF: for each configuration the call raises, or the bytes parse back to the input and the flow is empty afterwards")
def c06(tier):
    us = conf_units(tier)
    return us + [twin(us[0]), twin(us[-1])]


def stall_len(integ, phys, K, fs, lead_empty=False, mid_empty=False, long=False):
    """length of the concrete stream a stall/cut unit works on (computed natively at planning time)"""
    import importlib
    fl = importlib.import_module("vpkg.harness.flow")
    return len(fl.make_stream(integ, phys, K, fs, lead_empty, mid_empty, long)[0])


@prop("C11", functions=["pyjelly/serialize/flows.py:BoundedFrameFlow.__init__", "pyjelly/serialize/flows.py:BoundedFrameFlow.frame_from_bounds", "pyjelly/serialize/flows.py:FrameFlow.to_stream_frame",
                        "pyjelly/serialize/streams.py:TripleStream.triple", "pyjelly/serialize/streams.py:QuadStream.quad", "pyjelly/integrations/generic/serialize.py:flat_stream_to_frames",
                        "pyjelly/integrations/rdflib/serialize.py:flat_stream_to_frames", "pyjelly/parse/ioutils.py:get_options_and_frames", "pyjelly/parse/ioutils.py:frame_iterator",
                        "pyjelly/integrations/generic/parse.py:parse_jelly_flat", "pyjelly/integrations/rdflib/parse.py:parse_jelly_flat"],
      bounds={"quick": {"write": "frame_size symbolic (all integers >= 1), 4 statements, TRIPLES and QUADS, both integrations; flow lemma: pending rows 0..6, frame_size any integer incl. 0/None",
                        "parse": "stall offset symbolic over every byte offset of a 3-statement stream (frame_size 1 and 2), read chunk size symbolic: 1 or unlimited (quick), 1..3 or unlimited (thorough)"},
              "thorough": {"write": "5 statements", "parse": "4-statement streams, leading empty frames"}},
      outside="OS-level buffering; streams longer than the bound (frame-at-a-time argument)",
      explanation="L-FLOW + H-PULL: producer/consumer steps interleaved one next() at a time with pull-time observation of pending rows; H-STALL: non-seekable source that blocks forever after a symbolic byte offset")
def c11(tier):
    us = []
    for cls in ("bounded", "triples", "quads"):
        us.append(U(f"flow:{cls}", "flow", "flow_lemma", dict(cls=cls, kmax=6), timeout=120))
    K = 4 if tier == "quick" else 5
    for integ in ("generic", "rdflib"):
        for phys in (1, 2):
            us.append(U(f"pull:{integ}:p{phys}:K{K}", "flow", "pull", dict(integ=integ, phys=phys, K=K), timeout=300))
            us.append(U(f"pull:{integ}:p{phys}:K{K}:via_flow", "flow", "pull", dict(integ=integ, phys=phys, K=K, via_flow=True), timeout=300))
    for integ in ("generic", "rdflib"):
        us.append(U(f"pull_graph:{integ}", "flow", "pull_graph", dict(integ=integ), timeout=300))
    Ks = 3 if tier == "quick" else 4
    for integ in ("generic", "rdflib"):
        for phys in (1, 2, 3):
            for fs in (1, 2):
                for le in ([False] if tier == "quick" else [False, True]):
                    if tier == "quick" and integ == "rdflib" and fs == 2:
                        continue
                    if phys == 3 and tier == "quick" and (integ == "rdflib" or fs == 2):
                        continue
                    n = stall_len(integ, phys, Ks, fs, le)
                    parts = 4
                    for q in range(parts):
                        lo, hi = q * (n + 1) // parts, (q + 1) * (n + 1) // parts - 1
                        us.append(U(f"stall:{integ}:p{phys}:fs{fs}:le{int(le)}:a{lo}-{hi}", "flow", "stall",
                                    dict(integ=integ, phys=phys, K=Ks, fs=fs, lead_empty=le, len=n, lo=lo, hi=hi, maxchunk=1 if tier == "quick" else 3), timeout=600))
    return us + [twin(us[0]), twin(us[3]), twin(us[-1])]


IO_FUNCS = ["pyjelly/parse/ioutils.py:get_options_and_frames", "pyjelly/parse/ioutils.py:frame_iterator", "pyjelly/parse/ioutils.py:delimited_jelly_hint",
            "pyjelly/integrations/generic/parse.py:parse_jelly_flat", "pyjelly/integrations/rdflib/parse.py:parse_jelly_flat", "pyjelly/parse/decode.py:Decoder.iter_rows"]


def io_len(params):
    import importlib
    m = importlib.import_module("vpkg.harness.iosched")
    m.P = dict(params)
    return len(m.stream_bytes())


@prop("C09", functions=IO_FUNCS,
      bounds={"quick": {"schedule": "sched: first three raw reads limited to symbolic s1,s2,s3 each in 1..4 or unlimited; sched1: first read limited to any s1 >= 1; schedall: every read limited to one symbolic s >= 1 (all integers)",
                        "streams": "3-statement delimited streams (frame_size 1, 2) and non-delimited, TRIPLES/QUADS/GRAPHS, both integrations", "seekable": "BytesIO, buffered file, gzip, BufferedReader(FileIO) with symbolic buffer size {1,2,3,8,64}, positioned at a symbolic offset 0..3 behind an already consumed preamble"},
              "thorough": {"streams": "4 statements, leading empty frames"}},
      outside="sources violating the RawIOBase contract; schedules whose 5th and later reads are short are covered only by the uniform-limit units",
      explanation="H-IO-SCHED: a non-seekable RawIOBase double whose reads are limited by symbolic integers; result must equal the parse of the same bytes from memory")
def c09(tier):
    us = []
    K = 3 if tier == "quick" else 4
    for integ in ("generic", "rdflib"):
        for phys in (1, 2):
            for fs, delim in ((1, True), (2, True), (250, False)):
                if tier == "quick" and integ == "rdflib" and fs == 2:
                    continue
                base = dict(integ=integ, phys=phys, K=K, fs=fs, delimited=delim)
                base["len"] = io_len(base)
                us.append(U(f"sched:{integ}:p{phys}:fs{fs}:d{int(delim)}", "iosched", "sched", base, timeout=300))
                if tier != "quick" or fs == 1:
                    us.append(U(f"sched1:{integ}:p{phys}:fs{fs}:d{int(delim)}", "iosched", "sched1", base, timeout=300))
                if tier != "quick" or fs != 1:
                    us.append(U(f"schedall:{integ}:p{phys}:fs{fs}:d{int(delim)}", "iosched", "sched_all", base, timeout=300))
            us.append(U(f"seekable:{integ}:p{phys}", "iosched", "seekable", dict(integ=integ, phys=phys, K=K, fs=1), timeout=300))
    for integ in (("generic",) if tier == "quick" else ("generic", "rdflib")):
        base = dict(integ=integ, phys=3, K=K, fs=1, delimited=True)
        base["len"] = io_len(base)
        us.append(U(f"sched:{integ}:p3:fs1:d1", "iosched", "sched", base, timeout=300))
        us.append(U(f"schedall:{integ}:p3:fs1:d1", "iosched", "sched_all", base, timeout=300))
    if tier != "quick":
        for integ in ("generic",):
            for phys in (1, 2):
                base = dict(integ=integ, phys=phys, K=K, fs=1, delimited=True, lead_empty=True)
                base["len"] = io_len(base)
                us.append(U(f"sched:{integ}:p{phys}:fs1:le", "iosched", "sched", base, timeout=300))
    return us + [twin(us[0]), twin(us[1]), twin(us[-1])]


@prop("C10", functions=IO_FUNCS,
      bounds={"quick": {"cut": "every byte offset 0..len (symbolic k) of 3-statement delimited streams, frame_size 1 and 2, TRIPLES/QUADS/GRAPHS, both integrations; also with an empty frame in mid-stream and with frames >= 128 bytes (two-byte length prefixes)"},
              "thorough": {"cut": "4-statement streams, frame sizes 1,2,3, leading empty frames"}},
      outside="long streams (frame-at-a-time argument: a frame is decoded only after parse_length_prefixed returned it)",
      explanation="H-CUT: items yielded before end/exception are a prefix of the original sequence and contain every statement of every frame lying completely inside data[:k]")
def c10(tier):
    us = []
    K = 3 if tier == "quick" else 4
    for integ in ("generic", "rdflib"):
        for phys in (1, 2, 3):
            for fs in ((1, 2) if tier == "quick" else (1, 2, 3)):
                if phys == 3 and tier == "quick" and (integ == "rdflib" or fs == 2):
                    continue
                for le in ([False] if tier == "quick" else [False, True]):
                    n = stall_len(integ, phys, K, fs, le)
                    us.append(U(f"cut:{integ}:p{phys}:fs{fs}:le{int(le)}", "iosched", "cut", dict(integ=integ, phys=phys, K=K, fs=fs, lead_empty=le, len=n), timeout=600))
    # the cut as a dropped connection (exception from read()) and as EOF on a source that delivers its first bytes one at a time
    for integ in ("generic", "rdflib"):
        for src in ("drop", "chunked"):
            n = stall_len(integ, 2 if src == "drop" else 1, K, 1)
            parts = 2
            for q in range(parts):
                lo, hi = q * (n + 1) // parts, (q + 1) * (n + 1) // parts - 1
                us.append(U(f"cut:{integ}:{src}:{lo}-{hi}", "iosched", "cut", dict(integ=integ, phys=2 if src == "drop" else 1, K=K, fs=1, source=src, len=n, lo=lo, hi=hi), timeout=600))
    # an empty frame in the middle of the stream; frames >= 128 bytes (two-byte length prefixes)
    for integ in ("generic", "rdflib"):
        for phys in ((1, 2) if tier != "quick" or integ == "generic" else (1,)):
            n = stall_len(integ, phys, K, 1, False, True, False)
            us.append(U(f"cut:{integ}:p{phys}:fs1:mid-empty", "iosched", "cut", dict(integ=integ, phys=phys, K=K, fs=1, mid_empty=True, len=n), timeout=600))
            n = stall_len(integ, phys, K, 1, False, False, True)
            parts = 4
            for q in range(parts):
                lo, hi = q * (n + 1) // parts, (q + 1) * (n + 1) // parts - 1
                us.append(U(f"cut:{integ}:p{phys}:fs1:long:{lo}-{hi}", "iosched", "cut", dict(integ=integ, phys=phys, K=K, fs=1, long=True, len=n, lo=lo, hi=hi), timeout=600))
    return us + [twin(us[0])]


@prop("C08", functions=["pyjelly/parse/ioutils.py:delimited_jelly_hint", "pyjelly/parse/ioutils.py:get_options_and_frames", "pyjelly/serialize/ioutils.py:write_delimited",
                        "pyjelly/serialize/ioutils.py:write_single", "pyjelly/serialize/encode.py:encode_options"],
      bounds={"quick": {"hint": "options message length and frame remainder symbolic in [0, 2^21), 0..2 leading empty frames, both modes; header built by a pure-Python varint model",
                        "boundary": "stream name sized so that the first frame's length lands on / next to 127,128,129,16383,16384,16385 (symbolic choice), both modes", "pair": "stream name length symbolic 0..12 (options row sweeps the 10-byte coincidences), table sizes {8,16,128}x{0,8}, generalized/rdf_star symbolic, 1-2 statements, both integrations"},
              "thorough": {"pair": "stream name length 0..40, more table sizes"}},
      outside="streams whose first frame starts with metadata (excluded by the property's wording); lengths >= 2^21",
      explanation="L-HINT + H-PAIR", assumptions=["varint/tag framing model validated against google.protobuf.internal.encoder._VarintBytes on boundary lengths at every run"])
def c08(tier):
    us = [U("hint", "hint", "hint", {}, timeout=300)]
    mx = 12 if tier == "quick" else 40
    sizes = [(8, 8, 8), (16, 0, 8), (128, 8, 0)] if tier == "quick" else [(8, 8, 8), (16, 0, 8), (128, 8, 0), (10, 10, 10), (4000, 150, 32), (1290, 10, 1290)]
    for integ in ("generic", "rdflib"):
        for phys in (1, 2):
            for (a, b, c) in sizes:
                if c == 0:
                    continue
                us.append(U(f"pair:{integ}:p{phys}:t{a}-{b}-{c}", "hint", "pair", dict(integ=integ, phys=phys, names=a, prefixes=b, datatypes=c, maxname=mx), timeout=300))
    for phys in (1, 2):
        us.append(U(f"pair:rdflib:p{phys}:stream-only", "hint", "pair", dict(integ="rdflib", phys=phys, names=8, prefixes=8, datatypes=8, maxname=4, rentry="graph_serialize_stream_only"), timeout=300))
    for integ in ("generic", "rdflib"):
        us.append(U(f"boundary:{integ}", "hint", "boundary", dict(integ=integ, phys=1), timeout=600))
    us.append(U("hint-seekable", "iosched", "seekable", dict(integ="generic", phys=1, K=3, fs=1), timeout=300))
    # detection must also be right when the header arrives in pieces (non-seekable source, short first reads)
    for delim, fs in ((True, 1), (False, 250)):
        base = dict(integ="generic", phys=1, K=3, fs=fs, delimited=delim)
        base["len"] = io_len(base)
        us.append(U(f"hint-sched:d{int(delim)}", "iosched", "sched", base, timeout=300))
    return us + [twin(us[0]), twin(us[1])]


@prop("C13", functions=["pyjelly/options.py:*", "pyjelly/serialize/encode.py:encode_options", "pyjelly/serialize/streams.py:Stream.__init__", "pyjelly/parse/decode.py:options_from_frame",
                        "pyjelly/parse/decode.py:Decoder.validate_stream_options", "pyjelly/parse/decode.py:Decoder.__init__", "pyjelly/parse/lookup.py:LookupDecoder.__init__",
                        "pyjelly/parse/ioutils.py:get_options_and_frames", "pyjelly/integrations/generic/parse.py:parse_jelly_flat", "pyjelly/integrations/generic/parse.py:parse_jelly_grouped",
                        "pyjelly/integrations/rdflib/parse.py:parse_jelly_flat", "pyjelly/integrations/rdflib/parse.py:parse_jelly_grouped"],
      bounds={"quick": {"header": "3 stream classes x 8 logical types x delimited x namespace flag x generalized x rdf_star (symbolic) ; stream names from a 5-element alphabet (empty, ASCII, non-ASCII+astral, 10 bytes, control chars); table sizes names {8,9,4095,4096} x prefixes {0,1,7,8,4096} x datatypes {0,1,32,4096}",
                        "validation": "4x8 type matrix on construction; LookupPreset(max_names) for every integer (symbolic); LookupDecoder size for every integer > 4096 (symbolic) and {0,1,8,4095,4096}; parse-side matrix phys 0..3 x 8 logical x version 0..3 and hostile sizes {0,1,7,8,9,4095,4096,4097,65536,2^32-1}",
                        "strictness": "8 logical types x {flat,grouped} x strict x both integrations x 3 physical types"}},
      outside="stream names outside the alphabet (transported by protobuf, T2/T5)",
      explanation="L-OPT")
def c13(tier):
    us = []
    for integ in ("generic", "rdflib"):
        for phys in (1, 2, 3):
            us.append(U(f"hdr:types:{integ}:p{phys}", "opts", "hdr", dict(integ=integ, phys=phys, lt=-1, name=0, sizes=False), timeout=300))
            if integ == "generic" or tier != "quick":
                us.append(U(f"hdr:names:{integ}:p{phys}", "opts", "hdr", dict(integ=integ, phys=phys, lt=1 if phys == 1 else 2, name=-1, sizes=False), timeout=300))
        for nmi in range(5 if tier != "quick" else 1):
            us.append(U(f"hdr:sizes:{integ}:p1:n{nmi}", "opts", "hdr", dict(integ=integ, phys=1, lt=1, name=nmi, sizes=True), timeout=600))
    for integ in ("generic", "rdflib"):
        us.append(U(f"hdr_big:{integ}", "opts", "hdr_big", dict(integ=integ, phys=1), timeout=300))
        us.append(U(f"hdr_reuse:{integ}", "opts", "hdr_reuse", dict(integ=integ), timeout=600))
    us.append(U("matrix", "opts", "matrix", {}, timeout=120))
    us.append(U("names_min", "opts", "names_min", {}, timeout=120))
    for acc in (0, 1, 8, 4095, 4096):
        us.append(U(f"lookup_max:{acc}", "opts", "lookup_max", dict(accept=acc), timeout=120))
    for integ in ("generic", "rdflib"):
        ent = ["flat", "grouped", "to_graph"]
        us.append(U(f"parse_reject:types:{integ}", "opts", "parse_reject", dict(integ=integ, entries=ent, vary="types"), timeout=600))
        us.append(U(f"parse_reject:sizes:{integ}", "opts", "parse_reject", dict(integ=integ, entries=ent[:1] if tier == "quick" else ent, vary="sizes"), timeout=900))
        for phys in (1, 2, 3):
            us.append(U(f"strict:{integ}:p{phys}", "opts", "strict", dict(integ=integ, phys=phys), timeout=300))
    return us + [twin(us[0]), twin([u for u in us if u["fn"] == "matrix"][0]), twin([u for u in us if u["fn"] == "names_min"][0]),
                 twin([u for u in us if u["fn"] == "lookup_max"][0]), twin([u for u in us if u["fn"] == "parse_reject"][0]), twin([u for u in us if u["fn"] == "strict"][0])]


REJ_FUNCS = ["pyjelly/parse/decode.py:*", "pyjelly/parse/lookup.py:*", "pyjelly/parse/ioutils.py:*", "pyjelly/integrations/generic/parse.py:*", "pyjelly/integrations/rdflib/parse.py:*"]


def inject_units(tier, integs=("generic", "rdflib")):
    from vpkg.harness.reject import CLASSES
    us = []
    for integ in integs:
        for phys in (1, 2, 3):
            for (pf, dt) in ((4, 4), (0, 0)):
                for entry in (("flat",) if tier == "quick" and integ == "rdflib" else ("flat", "grouped", "to_graph")):
                    if tier == "quick" and entry != "flat" and (pf, dt) == (0, 0):
                        continue
                    us.append(U(f"inject:{integ}:p{phys}:t{pf}-{dt}:{entry}", "reject", "inject_h",
                                dict(integ=integ, phys=phys, prefixes=pf, datatypes=dt, entry=entry, cls=None), timeout=300))
    return us


@prop("C16", functions=REJ_FUNCS,
      bounds={"quick": {"streams": "3-statement valid base streams (TRIPLES/QUADS/GRAPHS, tables (8,4,4) and (8,0,0)) from the reference encoder",
                        "violations": "12 catalogued classes x injection position 0..2 x hostile value {size+1, 2^32-1} x framing {one frame, one row per frame}; class/position/value/framing symbolic",
                        "entries": "flat/grouped/to_graph of the generic integration, flat of rdflib"},
              "thorough": {"entries": "all three entry points of both integrations"}},
      outside="violations outside the catalogue; reader states not reached by the 3-statement base streams (covered for lookup bounds by the symbolic-size lemma of C13/C17)",
      explanation="H-INJECT: the reference decoder must call the mutated stream invalid (else discarded); pyjelly must raise at or before the offending row; what it yielded before must be a prefix of the valid part")
def c16(tier):
    us = inject_units(tier)
    rs = [u for u in read_units(tier) if tier != "quick" or u["params"]["n"] <= 2]
    return us + rs + [twin(us[0])]


@prop("C17", functions=REJ_FUNCS + ["pyjelly/options.py:MAX_LOOKUP_SIZE"],
      bounds={"quick": {"alloc": "LookupDecoder size symbolic over every integer > 4096 (rejected with zero allocations, observed by a spy on deque) and {0,1,8,4095,4096}",
                        "hostile": "message-structured streams: 3 rows (quick: first two of any of 11 kinds + a statement; thorough: all three of any kind)  (options missing/late/changed, entries, statements, graph markers, namespace, empty row) with one shared id value from {0,1,8,9,4096,4097,2^32-1} in every id field, options row present or missing, "
                                   "quoted-triple nesting depth {1,50,99,100,101}, lying length prefix {exact, shorter, longer, 2^31-1, 0}; TRIPLES/QUADS/GRAPHS; flat/grouped/to_graph of the generic integration, flat of rdflib"},
              "thorough": {"hostile": "all entry points of both integrations"}},
      outside="ARBITRARY RAW BYTES (random / bit-flipped): the byte-level quantifier runs through protobuf's C parser (upb), which symbolic execution cannot enter, and 256^L is not enumerable - NOT claimed. "
              "Memory used by io.BufferedReader/protobuf for a lying frame length is outside pyjelly's code and not measured.",
      explanation="H-ALLOC + H-HOSTILE (reduced scope, see DESIGN.md C17)")
def c17(tier):
    us = []
    for acc in (0, 1, 8, 4095, 4096):
        us.append(U(f"alloc:{acc}", "opts", "lookup_max", dict(accept=acc), timeout=120))
    stmt = {1: 5, 2: 6, 3: 5}
    for integ in ("generic", "rdflib"):
        for phys in (1, 2, 3):
            if integ == "rdflib" and phys != 1:
                continue   # the rdflib adapters differ from the generic ones only in term construction
            ent = ["flat", "grouped", "to_graph"] if (tier != "quick" or (integ == "generic" and phys == 1)) else ["flat"]
            for k1 in range(11):
                if tier == "quick":
                    us.append(U(f"hostile:{integ}:p{phys}:k{k1}", "reject", "hostile", dict(integ=integ, phys=phys, k1=k1, k2=None, k3=stmt[phys], entries=ent), timeout=600))
                else:
                    for k2 in range(11):
                        us.append(U(f"hostile:{integ}:p{phys}:k{k1}.{k2}", "reject", "hostile", dict(integ=integ, phys=phys, k1=k1, k2=k2, k3=None, entries=ent), timeout=900))
    # a table never accepts an entry id / reference beyond its declared size, from any reader state (ids symbolic)
    us += [u for u in read_units(tier) if tier != "quick" or u["params"]["n"] <= 2]
    # termination when the bytes arrive in short reads (exhausted source asked again > 200 times = hang)
    for delim, fs in ((True, 1), (False, 250)):
        base = dict(integ="generic", phys=1, K=3, fs=fs, delimited=delim)
        base["len"] = io_len(base)
        us.append(U(f"hostile-sched:d{int(delim)}", "iosched", "sched", base, timeout=300))
    return us + [twin(us[0]), twin(us[6])]


@prop("C14", functions=["pyjelly/serialize/encode.py:encode_namespace_declaration", "pyjelly/serialize/streams.py:Stream.namespace_declaration", "pyjelly/parse/decode.py:Decoder.decode_namespace_declaration",
                        "pyjelly/integrations/generic/serialize.py:namespace_declarations", "pyjelly/integrations/generic/parse.py:GenericStatementSinkAdapter.namespace_declaration",
                        "pyjelly/integrations/rdflib/serialize.py:namespace_declarations", "pyjelly/integrations/rdflib/parse.py:RDFLibAdapter.namespace_declaration", "pyjelly/options.py:StreamParameters.__post_init__"],
      bounds={"quick": {"bindings": "0..2 bindings, labels {'', 'ex', non-ASCII}, namespace IRIs {with '/', with '#', no separator, non-ASCII, empty}; all symbolic",
                        "streams": "2 statements, TRIPLES/QUADS/GRAPHS, frame_size symbolic (all integers >= 1), prefix table 1..2 so that declarations cause evictions, both integrations, option on and off"}},
      outside="more than 2 bindings / 2 statements; rdflib's namespace manager decides which bindings a Graph exposes (its defaults are taken as given)",
      explanation="H-PIPE with bindings: declarations read back by pyjelly and by the reference; statements identical with the option on and off; no NS row and version 1 with the option off; re-serialisation reproduces the declarations")
def c14(tier):
    us = []
    for integ in ("generic", "rdflib"):
        for phys in (1, 2, 3):
            for (nm, pf, dt) in ((8, 4, 2), (8, 8, 8)):
                if tier == "quick" and (pf == 8) != (phys == 2):
                    continue
                if integ == "generic":
                    entry, pentry = "stream_frames_sink", "flat"
                else:
                    entry, pentry = "graph_serialize", "flat"
                base = dict(integ=integ, phys=phys, names=nm, prefixes=pf, datatypes=dt, entry=entry, pentry=pentry, reser=True, setcmp=(integ == "rdflib"))
                us.append(U(f"ns:{integ}:p{phys}:t{nm}-{pf}-{dt}:nb0", "ns", "ns", dict(base, nb=0, explicit_version=1), timeout=600))
                if integ == "rdflib":
                    for fl in range(3):
                        us.append(U(f"ns:{integ}:p{phys}:t{nm}-{pf}-{dt}:nb1:l{fl}", "ns", "ns", dict(base, nb=1, fixl=fl), timeout=600))
                else:
                    us.append(U(f"ns:{integ}:p{phys}:t{nm}-{pf}-{dt}:nb1", "ns", "ns", dict(base, nb=1), timeout=600))
                fixes = [(1, 0), (0, 2), (2, 4)] if (tier == "quick" or integ == "rdflib") else [(a, b) for a in range(3) for b in range(5)]
                if tier == "quick" and integ == "rdflib":
                    fixes = [(1, 0)] if phys == 1 else []
                for fx in fixes:
                    us.append(U(f"ns:{integ}:p{phys}:t{nm}-{pf}-{dt}:nb2:f{fx[0]}.{fx[1]}", "ns", "ns", dict(base, nb=2, fix1=list(fx)), timeout=600))
    for integ in ("generic", "rdflib"):
        us.append(U(f"ns_grouped:{integ}", "ns", "ns_grouped", dict(integ=integ), timeout=600))
    for integ in ("generic", "rdflib"):
        us.append(U(f"ns:{integ}:p1:aname0", "ns", "ns", dict(integ=integ, phys=1, names=8, prefixes=8, datatypes=8, entry="stream_frames_sink" if integ == "generic" else "graph_serialize",
                    pentry="flat", reser=True, setcmp=(integ == "rdflib"), nb=1, aname0=True), timeout=600))
    for phys in (1, 2):
        us.append(U(f"ns:generic:p{phys}:nb3", "ns", "ns", dict(integ="generic", phys=phys, names=8, prefixes=8, datatypes=8, entry="stream_frames_sink", pentry="flat", reser=True, setcmp=False, nb=3), timeout=600))
    return us + [twin(us[1]), twin(us[-1])]


@prop("C20", functions=["pyjelly/serialize/streams.py:TripleStream.triple", "pyjelly/serialize/streams.py:QuadStream.quad", "pyjelly/serialize/streams.py:GraphStream.graph",
                        "pyjelly/serialize/encode.py:*", "pyjelly/serialize/lookup.py:*", "pyjelly/integrations/generic/serialize.py:GenericSinkTermEncoder.*", "pyjelly/integrations/rdflib/serialize.py:RDFLibTermEncoder.*"],
      bounds={"quick": {"drive": "TripleStream / QuadStream / GraphStream driven statement by statement in a catch-and-continue loop, 3 statements, fault position 0..2, slot {s,p,o,g,nested}, cause {unsupported term type, typed literal with datatype table 0, short tuple} all symbolic; frame_size symbolic (all integers >= 1); prefix table 0 and 4; both integrations"}},
      outside="longer streams; causes outside the three catalogued ones",
      explanation="H-FAULT: the final bytes decode (reference) to exactly the accepted statements or every later call raises; bytes written before the fault are a decodable prefix")
def c20(tier):
    us = []
    for integ in ("generic", "rdflib"):
        for phys in (1, 2, 3):
            for pf in (4, 0):
                us.append(U(f"fault:{integ}:p{phys}:pf{pf}", "fault", "fault", dict(integ=integ, phys=phys, prefixes=pf, datatypes=4), timeout=600))
                if pf == 4:
                    us.append(U(f"fault:{integ}:p{phys}:pf{pf}:rep", "fault", "fault", dict(integ=integ, phys=phys, prefixes=pf, datatypes=4, rep=True), timeout=600))
    return us + [twin(us[0])]


@prop("C18", functions=["pyjelly/serialize/lookup.py:Lookup.insert", "pyjelly/serialize/lookup.py:LookupEncoder.encode_entry_index", "pyjelly/serialize/encode.py:TermEncoder.encode_iri_indices",
                        "pyjelly/serialize/encode.py:TermEncoder.encode_literal", "pyjelly/serialize/encode.py:TermEncoder.encode_quoted_triple", "pyjelly/serialize/encode.py:encode_spo", "pyjelly/options.py:LookupPreset.__post_init__"],
      bounds={"quick": {"statement": "one statement after a table-filling first statement; subject x predicate x object x graph from alphabets with up to 5 prefixes, 3 datatypes, quoted triples nested up to depth 4 with 9 names; all selectors symbolic",
                        "tables": "max_prefixes symbolic 1..3 (thorough 1..5), max_datatypes symbolic 1..3, max_names 8; TRIPLES/QUADS/GRAPHS"}},
      outside="tables larger than the bounds; more than one over-capacity statement per stream",
      explanation="the writer raised, or both the reference decoder and pyjelly's parser return the input; fitting statements must never be refused")
def c18(tier):
    us = []
    us += [u for u in termbmc_units(tier, alphs=("dt",)) if u["params"]["integ"] == "generic" and not u["params"].get("three")]
    for phys in (1, 2, 3):
        for s_ in range(7):
            us.append(U(f"overcap:p{phys}:s{s_}", "overcap", "overcap", dict(phys=phys, s=s_, maxpf=3 if tier == "quick" else 5, fs=250 if s_ % 2 else 1,
                             gmax=4 if (tier != "quick" or phys == 1) else 2, dtmax=3 if (tier != "quick" or phys == 1) else 2), timeout=900))
    return us + [twin(us[0])]


@prop("C15", functions=PIPE_FUNCS + RDF_FUNCS,
      bounds={"quick": {"ser": "2 RDF 1.1 statements (rdflib alphabet), frame_size symbolic, TRIPLES/QUADS via flat_stream_to_file of both integrations (byte identity), GRAPHS via stream_frames (content identity: rdflib's path goes through a Dataset, a set)",
                        "parse": "the bytes of every explored path through flat / grouped / to_graph of both integrations; plus reference-encoder streams (4 statements) with symbolic producer choices (redundant entries, explicit ids, eviction victim, no repeated terms), 4 framings, delimited or not"}},
      outside="generalised / RDF-star terms (no rdflib counterpart); more statements",
      explanation="H-DIFF-SER + H-DIFF-PARSE")
def c15(tier):
    from vpkg import alpha
    us = []
    alph = ["rS", "rP", "rO" if tier != "quick" else "rO5", "rG4"]
    for phys in (1, 2, 3):
        for sp in range(len(alpha.RSPINES[phys])):
            for s2 in range(3):
                if tier == "quick" and sp != s2:
                    continue
                for p2 in range(2):
                    for (nm, pf, dt, delim) in ((8, 4, 2, True), (9, 0, 2, False)):
                        if tier == "quick" and (p2 == 0) != delim:
                            continue
                        entry = ("flat_file" if delim else "flat_frames") if phys != 3 else "stream_frames"
                        fxs = [[s2, p2]] if not (phys == 3 and delim) else [[s2, p2, o2] for o2 in range(len(alpha.ALPH[alph[2]]))]
                        for fx in fxs:
                            us.append(U(f"diff:p{phys}:sp{sp}:f{'.'.join(map(str, fx))}:t{nm}-{pf}-{dt}:d{int(delim)}", "diff", "diff",
                                        dict(phys=phys, spine=sp, fixed=fx, alph=alph, K=2, names=nm, prefixes=pf, datatypes=dt, delimited=delim, entry=entry,
                                             setsem=(phys == 3)), timeout=600))
    # same options beyond the flat defaults: non-delimited with an unspecified logical type, grouped logical types
    for phys, logical, delim in ((1, 0, False), (2, 0, False), (2, 4, True), (1, 3, True)):
        us.append(U(f"diff:p{phys}:lt{logical}:d{int(delim)}", "diff", "diff",
                    dict(phys=phys, spine=0, fixed=[1, 0], alph=alph, K=2, names=8, prefixes=4, datatypes=2, delimited=delim, entry="stream_frames", logical=logical), timeout=600))
    # quads handed to the guessing entry points with a GRAPHS sub-type: both integrations must route them the same way
    for logical in (3, 13):
        us.append(U(f"diff:guess:lt{logical}", "diff", "diff",
                    dict(phys=2, spine=0, fixed=[1, 0], alph=alph, K=2, names=8, prefixes=4, datatypes=2, delimited=True, entry="flat_file", logical=logical, project_triples=True), timeout=600))
    for phys in (1, 2, 3):
        for pf in (0, 4):
            us.append(U(f"diffref:p{phys}:pf{pf}", "diff", "diff_ref", dict(phys=phys, prefixes=pf), timeout=600))
    return us + [twin(us[0]), twin(us[-1])]


def read_units(tier):
    ns = [1, 2, 3] if tier == "quick" else [1, 2, 3, 4, 5]
    return [U(f"read_step:{kind}:n{n}", "tab", "read_step", dict(kind=kind, n=n), timeout=300 if tier == "quick" else 1800)
            for kind in ("name", "prefix", "datatype") for n in ns]


@prop("C04", functions=REJ_FUNCS,
      bounds={"quick": {"reader lemma": "LookupDecoder from an ARBITRARY state (any fill pattern, any last-assigned / last-reused, n 1..3) x optional entry row x one reference, all ids symbolic in [0, n+1]: result and post-state equal the spec rules when legal, raises when not",
                        "streams": "reference encoder, 6 statements (generalized + RDF-star terms, repeats, non-ASCII, empty name) in TRIPLES/QUADS/GRAPHS, versions 1 and 2 (namespace rows), tables (8,{0,3,4},{2,3}); six producer-choice policies (quick: the first three policies tied together; redundant entries, explicit entry ids, explicit reference ids, eviction victim, non-use of repeated terms, IRI split point) each never/always/alternating, 5 framings incl. empty frames, delimited or not, repeated options row - all symbolic",
                        "entries": "generic flat / grouped / to_graph (the rdflib entry points are compared against these in C15)"},
              "thorough": {"reader lemma": "n 1..5"}},
      outside="producers using table sizes beyond the bounds; choice sequences that are not expressible as per-kind never/always/alternate policies; streams valid only under spec readings the reference does not share",
      explanation="L-READ-IND + H-REFENC")
def c04(tier):
    us = read_units(tier)
    for phys in (1, 2, 3):
        for ver in (1, 2):
            for (nm, pf, dt) in ((8, 4, 3), (8, 0, 2), (8, 3, 2)):
                if tier == "quick" and (pf == 3) != (ver == 2):
                    continue
                for a in range(3):
                    for b in range(3):
                        if tier == "quick" and a != b:
                            continue
                        us.append(U(f"refenc:p{phys}:v{ver}:t{nm}-{pf}-{dt}:pol{a}{b}", "refenc", "refenc",
                                    dict(phys=phys, version=ver, names=nm, prefixes=pf, datatypes=dt, fixed_pol=[a, b] if tier != "quick" else [a, b, (a + 1) % 3], ropt=(tier != "quick" or a == 0)), timeout=600))
    return us + [twin(us[0]), twin(us[-1])]


def reframe_nrows(integ, phys, prefixes=4):
    import importlib
    m = importlib.import_module("vpkg.harness.reframe")
    m.P = dict(integ=integ, phys=phys, prefixes=prefixes)
    return len(m.base_rows(phys, integ == "rdflib")[0])


@prop("C07", functions=["pyjelly/parse/ioutils.py:get_options_and_frames", "pyjelly/parse/ioutils.py:frame_iterator", "pyjelly/parse/decode.py:Decoder.iter_rows",
                        "pyjelly/integrations/generic/parse.py:parse_jelly_flat", "pyjelly/integrations/generic/parse.py:parse_jelly_grouped", "pyjelly/integrations/generic/parse.py:parse_triples_stream",
                        "pyjelly/integrations/generic/parse.py:parse_quads_stream", "pyjelly/integrations/rdflib/parse.py:parse_jelly_flat", "pyjelly/integrations/rdflib/parse.py:parse_jelly_grouped",
                        "pyjelly/integrations/generic/serialize.py:grouped_stream_to_frames", "pyjelly/integrations/rdflib/serialize.py:grouped_stream_to_frames", "pyjelly/serialize/flows.py:GraphsFrameFlow.frame_from_graph",
                        "pyjelly/serialize/flows.py:DatasetsFrameFlow.frame_from_dataset"],
      bounds={"quick": {"reframe": "3-statement valid streams (TRIPLES/QUADS/GRAPHS, 8-14 rows); one symbolic boolean per row gap: every cut vector for streams of <= 9 rows, every vector with at most 2-3 (thorough 3-4) cuts for longer ones; empty frame in front and/or in the middle, metadata maps on first/last frame; both integrations",
                        "grouped_ser": "3 input sinks with 0..2 statements each (symbolic), every grouped logical type of the physical type, one shared Stream, the library constant DEFAULT_FRAME_SIZE replaced by a symbolic integer >= 1; both integrations; rdflib also with Dataset inputs to a GRAPHS-typed TripleStream (one frame per graph)"}},
      outside="longer streams (per-row argument: one Decoder instance, iter_rows per frame); more than 3 input sinks",
      explanation="H-REFRAME")
def c07(tier):
    us = []
    for integ in ("generic", "rdflib"):
        for phys in (1, 2, 3):
            n = reframe_nrows(integ, phys)
            for a in (False, True):
                for b in (False, True):
                    us.append(U(f"reframe:{integ}:p{phys}:c{int(a)}{int(b)}", "reframe", "reframe",
                                dict(integ=integ, phys=phys, nrows=n, fixcuts=[a, b], maxcuts=None if n <= 9 else ((2 if n > 11 else 3) if tier == "quick" else (3 if n > 11 else 4)), tie=(tier == "quick")), timeout=900))
            us.append(U(f"grouped_ser:{integ}:p{phys}", "reframe", "grouped_ser", dict(integ=integ, phys=phys), timeout=600))
            if integ == "rdflib" and phys == 1:
                us.append(U(f"grouped_ser:{integ}:p{phys}:datasets", "reframe", "grouped_ser", dict(integ=integ, phys=phys, dataset_input=True), timeout=600))
    return us + [twin(us[0]), twin(us[1])]


@prop("C12", functions=["pyjelly/serialize/streams.py:*", "pyjelly/serialize/encode.py:*", "pyjelly/serialize/lookup.py:*", "pyjelly/serialize/flows.py:*", "pyjelly/parse/decode.py:*",
                        "pyjelly/integrations/generic/serialize.py:flat_stream_to_frames", "pyjelly/integrations/rdflib/serialize.py:flat_stream_to_frames",
                        "pyjelly/integrations/generic/parse.py:parse_jelly_flat", "pyjelly/integrations/rdflib/parse.py:parse_jelly_flat"],
      bounds={"quick": {"interleavings": "two workloads (serializer+serializer, serializer+parser, parser+parser at frame/item granularity; Stream-API workloads at statement granularity, also built from ONE shared SerializerOptions object; 3 statements each) advanced one generator step at a time under a symbolic schedule of 7 booleans (every interleaving), after a symbolic history of 0..2 created-and-abandoned streams (one abandoned mid-stream, one that raised mid-statement); both integrations",
                        "determinism": "each workload run twice in one process must be byte-identical"},
              "thorough": {"interleavings": "also three workloads, schedules of 9 booleans"}},
      outside="NOT CLAIMED: pre-emptive THREAD schedules (CrossHair executes one thread; no symbolic thread scheduler for CPython is available) and determinism across PROCESSES / PYTHONHASHSEED values (the seed is fixed before the interpreter starts and cannot be a symbolic variable)",
      explanation="H-INTERLEAVE (reduced scope: generator-step interleavings and same-process determinism only)",
      sample_k=6, sample_every_unit=True)
def c12(tier):
    us = []
    combos = [[["ser", "A"], ["ser", "B"]], [["ser", "A"], ["parse", "B"]], [["parse", "A"], ["parse", "B"]], [["ser", "A"], ["ser", "A"]],
              [["sstream", "A"], ["sstream", "C"]], [["stream", "A"], ["stream", "B"]],
              [["parse", "D"], ["parse", "E"]], [["dsflow", "B"], ["ser", "A"]], [["lstream", "A"], ["stream", "C"]],
              [["parse", "G1"], ["parse", "G2"]]]
    for integ in ("generic", "rdflib"):
        for ci, ws in enumerate(combos):
            if tier == "quick" and integ == "rdflib" and ci not in (2, 4, 6, 9):
                continue   # the serializer-side workloads differ between the integrations only in term construction
            for hh in ((0, 2) if tier == "quick" else (0, 1, 2)):
                us.append(U(f"interleave:{integ}:c{ci}:h{hh}", "interleave", "interleave", dict(integ=integ, workloads=ws, steps=7, h=hh), timeout=900))
        if tier != "quick":
            for hh in range(3):
                for a in (False, True):
                    for b in (False, True):
                        us.append(U(f"interleave3:{integ}:h{hh}:s{int(a)}{int(b)}", "interleave", "interleave",
                                    dict(integ=integ, workloads=[["ser", "A"], ["parse", "B"], ["ser", "C"]], steps=9, h=hh, fixsched=[a, b]), timeout=1800))
    return us + [twin(us[0])]


def stmt_units(tier):
    """L-STMT work units: singles (one table-using term per statement) and, thorough only, pairs."""
    import importlib
    m = importlib.import_module("vpkg.harness.stmt")
    out = []

    def mk(kinds, tn, tp, td, timeout=300, integ="generic", rep=None):
        tables = {"name": tn, "prefix": tp, "datatype": td}
        m.P = {"tables": tables}
        tag = "stmt:" + ("" if integ == "generic" else "rdflib:") + "|".join(kinds) + f":n{tn['n']}.{tn['m']}:p{tp['n']}.{tp['m']}.{tp.get('e', 0)}:d{td['n']}.{td['m']}" + ("" if not rep else ":rep" + "".join(map(str, rep)))
        out.append(U(tag, "stmt", "stmt", dict(kinds=kinds, tables=tables, nchoices=m.count_choices(kinds), integ=integ, rep=rep), timeout=timeout, no_sample=True))

    names = [dict(n=2, m=0), dict(n=2, m=1), dict(n=2, m=2), dict(n=3, m=3)]
    prefs = [dict(n=0, m=0, e=0), dict(n=2, m=1, e=0), dict(n=2, m=2, e=1), dict(n=2, m=2, e=0), dict(n=3, m=3, e=2)]
    dts = [dict(n=2, m=1), dict(n=2, m=2), dict(n=1, m=1)]
    if tier != "quick":
        names += [dict(n=3, m=2), dict(n=4, m=4)]
        prefs += [dict(n=1, m=1, e=0), dict(n=1, m=1, e=1), dict(n=3, m=2, e=0), dict(n=4, m=4, e=1)]
        dts += [dict(n=3, m=3), dict(n=3, m=2)]
    d0 = dict(n=1, m=0)
    for tn in names:
        for tp in prefs:
            if tier == "quick" and tn["n"] == 3 and tp["n"] == 3:
                continue
            if tn["n"] >= 4 and tp["n"] >= 4:
                continue  # n4 x p4 does not exhaust within 10 CPU-minutes
            mk(["iri", "bnode", "lit"], tn, tp, d0, 600)
    for td in dts:
        mk(["bnode", "bnode", "tlit"], dict(n=2, m=0), dict(n=2, m=0, e=0), td)
        mk(["bnode", "bnode", "lit", "tlit"], dict(n=2, m=0), dict(n=0, m=0, e=0), td)
    mk(["bnode", "bnode", "lit", "iri"], dict(n=2, m=2), dict(n=2, m=2, e=0), d0)
    mk(["bnode", "bnode", "lit", "default"], dict(n=2, m=2), dict(n=2, m=2, e=0), d0)
    mk(["qt:iri,bnode,tlit", "bnode", "lit"], dict(n=2, m=2), dict(n=2, m=1, e=0), dict(n=2, m=2), 900)
    # rdflib term encoder from symbolic table states
    mk(["iri", "iri", "lit"], dict(n=2, m=1), dict(n=2, m=1, e=0), d0, 900, integ="rdflib")
    mk(["iri", "bnode", "lit"], dict(n=2, m=2), dict(n=2, m=2, e=1), d0, 600, integ="rdflib")
    mk(["bnode", "iri", "tlit"], dict(n=2, m=2), dict(n=0, m=0, e=0), dict(n=2, m=2), 600, integ="rdflib")
    mk(["bnode", "iri", "lit", "iri"], dict(n=2, m=1), dict(n=2, m=2, e=0), d0, 900, integ="rdflib")
    # repeated-term classes per slot: 1 = equal to the previous statement's term (must be elided), 2 = different
    mk(["iri", "bnode", "lit"], dict(n=2, m=2), dict(n=2, m=2, e=0), d0, 600, rep=[1, 2, 0])
    if tier != "quick":
        mk(["iri", "iri", "tlit"], dict(n=2, m=2), dict(n=2, m=1, e=0), dict(n=2, m=2), 1800, rep=[2, 1, 1])
        mk(["bnode", "iri", "lit", "iri"], dict(n=2, m=2), dict(n=2, m=2, e=1), d0, 1800, rep=[1, 0, 2, 1])
    mk(["bnode", "iri", "lit", "iri"], dict(n=2, m=1), dict(n=2, m=1, e=0), d0, 900, rep=[1, 2, 2, 1])
    mk(["iri", "iri", "lit"], dict(n=2, m=1), dict(n=2, m=1, e=0), d0, 900, integ="rdflib", rep=[1, 2, 1])
    # two typed literals in one statement (deferred resolution on the datatype table)
    mk(["bnode", "bnode", "tlit", "tlit"], dict(n=2, m=0), dict(n=0, m=0, e=0), dict(n=2, m=2), 900)
    mk(["bnode", "bnode", "tlit", "tlit"], dict(n=2, m=0), dict(n=0, m=0, e=0), dict(n=2, m=1), 900)
    mk(["tlit", "bnode", "tlit"], dict(n=2, m=0), dict(n=0, m=0, e=0), dict(n=3, m=3), 900)
    if tier != "quick":
        for tp in (dict(n=2, m=2, e=0), dict(n=2, m=2, e=1), dict(n=2, m=1, e=0), dict(n=0, m=0, e=0)):
            for tn in (dict(n=2, m=2), dict(n=2, m=1)):
                mk(["iri", "iri", "lit"], tn, tp, d0, 1800)
        mk(["iri", "bnode", "qt:bnode,iri,lit"], dict(n=2, m=2), dict(n=2, m=2, e=0), d0, 1800)
    return out


def spec_units(tier):
    out = []
    for kind in ("name", "prefix", "datatype"):
        if tier == "quick":
            for f in range(4):
                out.append(U(f"spec:{kind}:L4:f{f}", "tab", "spec", dict(kind=kind, L=3, fixed=[f]), timeout=600))
        else:
            for f in range(4):
                for g in range(4):
                    out.append(U(f"spec:{kind}:L5:f{f}{g}", "tab", "spec", dict(kind=kind, L=3, fixed=[f, g]), timeout=1800))
    return out


def termbmc_units(tier, alphs=("dt", "iri")):
    out = []
    K = 4 if tier == "quick" else 5
    for integ in ("generic", "rdflib"):
        for alph in alphs:
            nal = 4 if alph == "dt" else 6
            cfgs = [([8, 2, 2], False), ([8, 2, 2], True)] if alph == "dt" else [([2, 2, 2], False), ([3, 0, 2], False), ([2, 1, 2], False), ([2, 3, 1], False)]
            if integ == "rdflib":
                cfgs = cfgs[:1] if tier == "quick" else [c for c in cfgs if not c[1]]
            for sizes, two in cfgs:
                for f in range(nal):
                    fx = [f] if tier == "quick" else [f]
                    out.append(U(f"termbmc:{integ}:{alph}:t{'-'.join(map(str, sizes))}:two{int(two)}:f{f}", "termbmc", "termbmc",
                                 dict(integ=integ, alph=alph, K=K, sizes=sizes, two=two, fixed=fx), timeout=900 if tier == "quick" else 3600))
    # longer datatype histories (an entry evicted and re-entered at another id): four fixed uses, then two symbolic ones
    if "dt" in alphs:
        for integ in (("generic",) if tier == "quick" else ("generic", "rdflib")):
            for dsz in (2, 3):
                out.append(U(f"termbmc:{integ}:dt6:d{dsz}:long", "termbmc", "termbmc",
                             dict(integ=integ, alph="dt6", K=6, sizes=[8, 2, dsz], two=False, fixed=[0, 1, 2, 3]), timeout=900))
    # three table-using terms per statement: fill-to-evict transition INSIDE one statement (names table of 3 and 2)
    for integ in ("generic", "rdflib"):
        for n in (3, 2):
            firsts = [[0, 0, 1], [0, 1, 1], [0, 1, 2]] if tier == "quick" else [[a, b, c] for a in range(2) for b in range(3) for c in range(4)]
            for fi in firsts:
                out.append(U(f"termbmc3:{integ}:n{n}:first{''.join(map(str, fi))}", "termbmc", "termbmc",
                             dict(integ=integ, alph="names", K=6, sizes=[n, 2, 2], three=True, first=fi), timeout=900))
    return out
