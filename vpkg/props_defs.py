from __future__ import annotations

from vpkg.props import U, prop, twin

TAB_FUNCS = [
    "pyjelly/serialize/lookup.py:Lookup.insert", "pyjelly/serialize/lookup.py:Lookup.make_last_to_evict",
    "pyjelly/serialize/lookup.py:LookupEncoder.encode_entry_index", "pyjelly/serialize/lookup.py:LookupEncoder.encode_term_index",
    "pyjelly/serialize/lookup.py:LookupEncoder.encode_name_term_index", "pyjelly/serialize/lookup.py:LookupEncoder.encode_prefix_term_index",
    "pyjelly/serialize/lookup.py:LookupEncoder.encode_datatype_term_index",
    "pyjelly/parse/lookup.py:LookupDecoder.__init__", "pyjelly/parse/lookup.py:LookupDecoder.assign_entry", "pyjelly/parse/lookup.py:LookupDecoder.at",
    "pyjelly/parse/lookup.py:LookupDecoder.decode_name_term_index", "pyjelly/parse/lookup.py:LookupDecoder.decode_prefix_term_index",
    "pyjelly/parse/lookup.py:LookupDecoder.decode_datatype_term_index",
]


def tab_units(fn, ns, timeout):
    out = []
    for kind in ("name", "prefix", "datatype"):
        for n in ns:
            for m in range(0, n + 1):
                es = range(0, m + 1) if kind == "prefix" else [0]
                for e in es:
                    out.append(U(f"{fn}:{kind}:n{n}:m{m}:e{e}", "tab", fn, dict(kind=kind, n=n, m=m, e=e),
                                 timeout=timeout, replay_fn="replay_step"))
    return out


@prop("C05",
      functions=TAB_FUNCS,
      bounds={"quick": {"table_size_n": "1..4", "fill_level_m": "0..n (all)", "history_length": "any (inductive step from arbitrary invariant state)"},
              "thorough": {"table_size_n": "1..8", "fill_level_m": "0..n (all)", "history_length": "any (inductive step)"}},
      outside="table sizes beyond the bound; composition of step lemmas into 'all histories' is a paper argument (DESIGN.md 4)",
      explanation="L-TAB-BASE + L-TAB-IND: one table use from an arbitrary symbolic writer/reader state satisfying the representation invariant; H-TAB-BMC: bounded histories from the real initial state",
      assumptions=["representation invariant I_tab (DESIGN.md 4) — every state satisfying it is reachable, checked by constructive-history replay"])
def c05(tier):
    ns = [1, 2, 3, 4] if tier == "quick" else [1, 2, 3, 4, 5, 6, 7, 8]
    us = tab_units("ind_step", ns, 120 if tier == "quick" else 900)
    tw = [twin(u) for u in us if u["params"]["n"] == 2]
    L = 4 if tier == "quick" else 6
    bm = []
    for kind in ("name", "prefix", "datatype"):
        for n in (1, 2, 3):
            for f in range(n + 2):
                bm.append(U(f"bmc:{kind}:n{n}:L{L}:f{f}", "tab", "bmc", dict(kind=kind, n=n, L=L - 1, fixed=[f]), timeout=300))
    tw += [twin(bm[0]), twin(bm[-1])]
    return us + bm + tw
