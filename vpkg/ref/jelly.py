"""Independent reference for the Jelly stream state machine, as the specification words it.

Terms (neutral form):  ("iri", str) | ("bnode", str) | ("lit", lex, lang|None, datatype|None)
                       | ("triple", s, p, o) | ("default",)
Items:                 ("T", s, p, o) | ("Q", s, p, o, g) | ("NS", name, iri_str)
xsd:string datatype is normalised to the plain literal by norm_term().
"""
from __future__ import annotations

from vpkg.ref import wire

XSD_STRING = "http://www.w3.org/2001/XMLSchema#string"
MAX_TABLE = 4096
PHYS = {1: "TRIPLES", 2: "QUADS", 3: "GRAPHS"}
LOGICAL = (0, 1, 2, 3, 4, 13, 14, 114)
TRIPLES_LOGICAL = (1, 3, 13)  # logical types whose base needs physical TRIPLES


class RefInvalid(Exception):
    """The stream violates the specification (meaning undefined)."""


def norm_term(t):
    if t[0] == "lit":
        lex, lang, dt = t[1], t[2] or None, t[3] or None
        if lang:
            dt = None
        if dt == XSD_STRING:
            dt = None
        return ("lit", lex, lang, dt)
    if t[0] == "triple":
        return ("triple",) + tuple(norm_term(x) for x in t[1:])
    return tuple(t)


def norm_item(it):
    if it[0] == "NS":
        return tuple(it)
    return (it[0],) + tuple(norm_term(x) for x in it[1:])


def types_compatible(phys: int, logical: int) -> bool:
    if phys == 0 or logical == 0:
        return True
    return (phys == 1) == (logical in TRIPLES_LOGICAL)


class Table:
    def __init__(self, size: int):
        self.size = size
        self.slots: dict[int, str] = {}
        self.last_assigned = 0
        self.last_used = 0

    def assign(self, i: int, value: str) -> int:
        if i == 0:
            i = self.last_assigned + 1
        if not (1 <= i <= self.size):
            raise RefInvalid(f"entry id {i} outside table of size {self.size}")
        self.slots[i] = value
        self.last_assigned = i
        return i

    def get(self, i: int) -> str:
        if not (1 <= i <= self.size):
            raise RefInvalid(f"reference {i} outside table of size {self.size}")
        if i not in self.slots:
            raise RefInvalid(f"reference {i} to a slot never filled")
        return self.slots[i]


class RefDecoder:
    """Row-at-a-time reference decoder with audit counters."""

    def __init__(self):
        self.options = None
        self.names = self.prefixes = self.datatypes = None
        self.prev = {}
        self.graph = None
        self.in_graph = False
        self.items = []
        self.audit = {"redundant_entries": 0, "missed_zero_entry": 0, "missed_zero_prefix": 0,
                      "missed_zero_name": 0, "missed_elision": 0, "entries": 0, "graph_starts": 0,
                      "adjacent_equal_graphs": 0}
        self._last_graph_closed = None
        self.rows_seen = 0

    # -- options
    def on_options(self, d):
        if self.options is None:
            if self.rows_seen != 0:
                raise RefInvalid("options row is not the first row")
            phys, logical, ver = d["physical_type"], d["logical_type"], d["version"]
            if phys not in PHYS:
                raise RefInvalid(f"unsupported physical type {phys}")
            if logical not in LOGICAL:
                raise RefInvalid(f"unknown logical type {logical}")
            if not types_compatible(phys, logical):
                raise RefInvalid("incompatible physical/logical types")
            if not (1 <= ver <= 2):
                raise RefInvalid(f"unsupported version {ver}")
            if d["max_name_table_size"] < 8:
                raise RefInvalid("name table smaller than 8")
            for k in ("max_name_table_size", "max_prefix_table_size", "max_datatype_table_size"):
                if d[k] > MAX_TABLE:
                    raise RefInvalid("table larger than supported")
            self.options = dict(d)
            self.names = Table(d["max_name_table_size"])
            self.prefixes = Table(d["max_prefix_table_size"])
            self.datatypes = Table(d["max_datatype_table_size"])
        elif d != self.options:
            raise RefInvalid("options row repeated with different content")

    def need_options(self):
        if self.options is None:
            raise RefInvalid("row before options")

    # -- terms
    def iri(self, raw):
        _, pid, nid = raw
        if nid == 0:
            nid_eff = self.names.last_used + 1
        else:
            nid_eff = nid
            if nid == self.names.last_used + 1:
                self.audit["missed_zero_name"] += 1
        name = self.names.get(nid_eff)
        self.names.last_used = nid_eff
        if self.prefixes.size == 0:
            if pid != 0:
                raise RefInvalid("prefix reference while prefix table disabled")
            return ("iri", name)
        if pid == 0:
            pid_eff = self.prefixes.last_used
        else:
            pid_eff = pid
            if pid == self.prefixes.last_used:
                self.audit["missed_zero_prefix"] += 1
        if pid_eff == 0:
            prefix = ""
        else:
            prefix = self.prefixes.get(pid_eff)
            self.prefixes.last_used = pid_eff
        return ("iri", prefix + name)

    def literal(self, raw):
        _, lex, lang, dt = raw
        if lang is not None and lang != "":
            return ("lit", lex, lang, None)
        if dt is not None:
            if dt == 0:
                raise RefInvalid("datatype reference 0")
            if self.datatypes.size == 0:
                raise RefInvalid("datatype reference while datatype table disabled")
            return ("lit", lex, None, self.datatypes.get(dt))
        return ("lit", lex, None, None)

    def term(self, raw, quoted=False):
        k = raw[0]
        if k == "iri":
            return self.iri(raw)
        if k == "bnode":
            return ("bnode", raw[1])
        if k == "lit":
            return self.literal(raw)
        if k == "default":
            return ("default",)
        if k == "triple":
            d = raw[1]
            out = []
            for s in ("s", "p", "o"):
                if s not in d:
                    raise RefInvalid("repeated term inside quoted triple")
                out.append(self.term(d[s], quoted=True))
            return ("triple",) + tuple(out)
        raise RefInvalid(f"unknown term {raw!r}")

    def statement(self, d, slots):
        out = []
        for s in slots:
            if s in d:
                t = self.term(d[s])
                if s in self.prev and self.prev[s] == t:
                    self.audit["missed_elision"] += 1
                self.prev[s] = t
            else:
                if s not in self.prev:
                    raise RefInvalid(f"repeated term in slot {s} without predecessor")
                t = self.prev[s]
            out.append(t)
        return out

    # -- rows
    def row(self, row):
        kind = row[0]
        if kind == "empty":
            raise RefInvalid("row without content")
        if kind == "options":
            self.on_options(row[1])
            self.rows_seen += 1
            return
        self.need_options()
        self.rows_seen += 1
        phys = self.options["physical_type"]
        if kind in ("name", "prefix", "datatype"):
            tab = {"name": self.names, "prefix": self.prefixes, "datatype": self.datatypes}[kind]
            self.audit["entries"] += 1
            if row[2] in tab.slots.values():
                self.audit["redundant_entries"] += 1
            if row[1] != 0 and row[1] == tab.last_assigned + 1:
                self.audit["missed_zero_entry"] += 1
            tab.assign(row[1], row[2])
        elif kind == "triple":
            if phys == 1:
                self.items.append(("T",) + tuple(self.statement(row[1], ("s", "p", "o"))))
            elif phys == 3:
                if not self.in_graph:
                    raise RefInvalid("triple outside any graph in a GRAPHS stream")
                self.items.append(("Q",) + tuple(self.statement(row[1], ("s", "p", "o"))) + (self.graph,))
            else:
                raise RefInvalid("triple row in a QUADS stream")
        elif kind == "quad":
            if phys != 2:
                raise RefInvalid("quad row outside a QUADS stream")
            self.items.append(("Q",) + tuple(self.statement(row[1], ("s", "p", "o", "g"))))
        elif kind == "graph_start":
            if phys != 3:
                raise RefInvalid("graph start outside a GRAPHS stream")
            if row[1] is None:
                raise RefInvalid("graph start without graph name")
            if self.in_graph:
                raise RefInvalid("graph start while the previous graph is still open (missing graph end)")
            self.graph = self.term(row[1])
            self.audit["graph_starts"] += 1
            if self._last_graph_closed is not None and self._last_graph_closed == self.graph:
                self.audit["adjacent_equal_graphs"] += 1
            self.in_graph = True
        elif kind == "graph_end":
            if phys != 3:
                raise RefInvalid("graph end outside a GRAPHS stream")
            if not self.in_graph:
                raise RefInvalid("graph end without graph start")
            self.in_graph = False
            self._last_graph_closed = self.graph
        elif kind == "namespace":
            if self.options["version"] < 2:
                raise RefInvalid("namespace declaration in a version-1 stream")
            if row[2] is None:
                raise RefInvalid("namespace declaration without IRI")
            self.items.append(("NS", row[1], self.iri(row[2])[1]))
        else:
            raise RefInvalid(f"unknown row {kind}")

    def frame(self, body: bytes):
        rows, meta = wire.dec_frame(body)
        for r in rows:
            self.row(r)
        return meta


def split_stream(data: bytes):
    """Frames of a byte stream, using the spec's detection rule for delimited vs not."""
    if len(data) >= 3 and (data[0] != 0x0A or (data[1] == 0x0A and data[2] != 0x0A)):
        return wire.split_delimited(data), True
    return [data], False


def decode(data: bytes, delimited=None, complete=True):
    """-> (items normalised, options dict, decoder). Raises RefInvalid / WireError."""
    if delimited is None:
        frames, delimited = split_stream(data)
    elif delimited:
        frames = wire.split_delimited(data)
    else:
        frames = [data]
    dec = RefDecoder()
    try:
        for f in frames:
            dec.frame(f)
    except wire.WireError as e:
        raise RefInvalid(f"wire: {e}") from None
    if dec.options is None:
        raise RefInvalid("no options row")
    if dec.in_graph and complete:
        raise RefInvalid("stream ends inside an open graph (missing graph end)")
    return [norm_item(i) for i in dec.items], dec.options, dec


# ===========================================================================================
# Reference encoder: every legal producer choice is a call to `choose(tag, n)` -> int in [0, n).

def default_choose(tag, n):
    return 0


class RefEncoder:
    def __init__(self, phys, names=8, prefixes=2, datatypes=2, version=1, logical=0, stream_name="",
                 choose=default_choose, generalized=True, rdf_star=True):
        self.choose = choose
        self.opt = {"stream_name": stream_name, "physical_type": phys, "generalized_statements": int(generalized),
                    "rdf_star": int(rdf_star), "max_name_table_size": names, "max_prefix_table_size": prefixes,
                    "max_datatype_table_size": datatypes, "logical_type": logical, "version": version}
        self.tabs = {"name": Table(names), "prefix": Table(prefixes), "datatype": Table(datatypes)}
        self.prev = {}
        self.rows = [("options", dict(self.opt))]
        self.pinned = {"name": set(), "prefix": set(), "datatype": set()}

    # -- tables: any victim not pinned by the current statement may be evicted
    def ensure(self, kind, value):
        """Make `value` resident; returns its id. Choices: re-send although resident, which slot to
        (over)write - any slot not used by the current statement is a legal victim -, explicit vs zero id."""
        tab = self.tabs[kind]
        resident = sorted(i for i, v in tab.slots.items() if v == value)
        if resident and not self.choose(f"redundant-{kind}", 2):
            self.pinned[kind].add(resident[0])
            return resident[0]
        cand = [i for i in range(1, tab.size + 1) if i not in self.pinned[kind]]
        if not cand:
            raise RefInvalid("statement does not fit the table")
        free = [i for i in cand if i not in tab.slots]
        # natural choice first: next free slot, else lowest unpinned slot; other choices = other legal slots
        natural = free[0] if free else cand[0]
        order = [natural] + [i for i in cand if i != natural]
        i = order[self.choose(f"victim-{kind}", len(order))]
        wire_id = i
        if i == tab.last_assigned + 1 and not self.choose(f"explicit-entry-{kind}", 2):
            wire_id = 0
        self.rows.append((kind, wire_id, value))
        tab.assign(i, value)
        self.pinned[kind].add(i)
        return i

    def split(self, iri):
        if self.tabs["prefix"].size == 0:
            return "", iri
        cuts = sorted(set([0, len(iri)] + [i + 1 for i, ch in enumerate(iri) if ch in "#/"]))
        k = cuts[len(cuts) - 1 - self.choose("split", len(cuts))]
        return iri[:k], iri[k:]

    def iri(self, iri):
        prefix, name = self.split(iri)
        ptab, ntab = self.tabs["prefix"], self.tabs["name"]
        pid = 0
        if ptab.size:
            if prefix == "" and ptab.last_used == 0 and not self.choose("explicit-empty-prefix", 2):
                pid_eff = 0
            else:
                pid_eff = self.ensure("prefix", prefix)
            nid_eff = self.ensure("name", name)
            if pid_eff:
                pid = pid_eff
                if pid_eff == ptab.last_used and not self.choose("explicit-prefix", 2):
                    pid = 0
                ptab.last_used = pid_eff
        else:
            nid_eff = self.ensure("name", name)
        nid = nid_eff
        if nid_eff == ntab.last_used + 1 and not self.choose("explicit-name", 2):
            nid = 0
        ntab.last_used = nid_eff
        return ("iri", pid, nid)

    def term(self, t):
        k = t[0]
        if k == "iri":
            return self.iri(t[1])
        if k == "bnode":
            return ("bnode", t[1])
        if k == "default":
            return ("default",)
        if k == "lit":
            lex, lang, dt = t[1], t[2], t[3]
            if lang:
                return ("lit", lex, lang, None)
            if dt and (dt != XSD_STRING or self.choose("explicit-xsd-string", 2)):
                if self.tabs["datatype"].size == 0:
                    raise RefInvalid("datatype table disabled")
                return ("lit", lex, None, self.ensure("datatype", dt))
            return ("lit", lex, None, None)
        if k == "triple":
            return ("triple", [self.term(x) for x in t[1:]])
        raise RefInvalid(f"bad term {t!r}")

    def begin(self):
        for s in self.pinned.values():
            s.clear()

    def statement(self, kind, terms):
        self.begin()
        slots = ("s", "p", "o", "g")[:len(terms)]
        raw = []
        pre = len(self.rows)
        for s, t in zip(slots, terms):
            nt = norm_term(t)
            if s in self.prev and self.prev[s] == nt and not self.choose("no-repeat", 2):
                raw.append(None)
            else:
                raw.append(self.term(t))
                self.prev[s] = nt
        self.rows.append((kind, raw))

    def triple(self, s, p, o):
        self.statement("triple", (s, p, o))

    def quad(self, s, p, o, g):
        self.statement("quad", (s, p, o, g))

    def graph_start(self, g):
        self.begin()
        self.rows.append(("graph_start", self.term(g)))

    def graph_end(self):
        self.rows.append(("graph_end",))

    def namespace(self, name, iri):
        self.begin()
        raw = self.iri(iri)
        self.rows.append(("namespace", name, raw))

    def repeat_options(self):
        self.rows.append(("options", dict(self.opt)))

    def frames(self, cuts=None, empty_frames=(), metadata=None):
        """cuts: set of row indices after which a frame ends (last row always ends a frame)."""
        out, cur = [], []
        n = len(self.rows)
        fi = 0
        for i, r in enumerate(self.rows):
            cur.append(r)
            if i == n - 1 or (cuts and i in cuts):
                if fi in empty_frames and out:
                    out.append(wire.enc_frame([]))
                out.append(wire.enc_frame(cur, (metadata or {}).get(fi)))
                fi += 1
                cur = []
        return out

    def to_bytes(self, delimited=True, **kw):
        fr = self.frames(**kw)
        if delimited:
            return wire.delimit(fr)
        return b"".join(fr)
