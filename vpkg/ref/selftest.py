"""Validate the reference codec against pyjelly on the repository's own fixtures (Serval-style).
A disagreement here is a harness error (or a finding to triage by hand), never a VIOLATION."""
from __future__ import annotations

import glob
import io
import random
import sys

from vpkg import terms
from vpkg.ref import jelly as R


def fixtures_via_rdflib():
    import rdflib
    from pyjelly import jelly
    from pyjelly.integrations.rdflib import serialize as rs
    from pyjelly.integrations.rdflib import parse as rp
    from pyjelly.options import LookupPreset, StreamParameters
    from pyjelly.serialize.streams import SerializerOptions

    n = 0
    for path in sorted(glob.glob("/repo/tests/e2e_test_cases/*/*.n[tq]")):
        quads = path.endswith(".nq")
        g = rdflib.Dataset() if quads else rdflib.Graph()
        g.parse(path, format="nquads" if quads else "nt")
        for preset in (LookupPreset(), LookupPreset(max_names=8, max_prefixes=8, max_datatypes=8), LookupPreset(max_names=16, max_prefixes=0, max_datatypes=4)):
            for fs in (1, 7, 250):
                opts = SerializerOptions(frame_size=fs, lookup_preset=preset,
                                         logical_type=jelly.LOGICAL_STREAM_TYPE_FLAT_QUADS if quads else jelly.LOGICAL_STREAM_TYPE_FLAT_TRIPLES)
                data = g.serialize(format="jelly", options=opts, encoding="jelly")
                items, _, dec = R.decode(data)
                mine = sorted(map(repr, items))
                theirs = sorted(repr(terms.norm_item(terms.item_from_rdflib(x))) for x in rp.parse_jelly_flat(io.BytesIO(data)))
                assert mine == theirs, f"reference != pyjelly on {path} {preset} fs={fs}"
                a = dec.audit
                assert a["redundant_entries"] == 0 and a["missed_zero_entry"] == 0 and a["missed_zero_name"] == 0 and a["missed_zero_prefix"] == 0, (path, a)
                n += 1
    return n


def _lenient_ns(items):
    """Selftest validates the reference, not pyjelly: unwrap the generic API's IRI(IRI(..)) namespace value (C14's subject)."""
    out = []
    for it in items:
        if it[0] == "NS" and isinstance(it[2], tuple):
            s = it[2][1]
            while (s.startswith("IRI(") and s.endswith(")")) or (s.startswith("<") and s.endswith(">")):
                s = s[4:-1] if s.startswith("IRI(") else s[1:-1]
            it = ("NS", it[1], s)
        out.append(it)
    return out


def fixtures_jelly():
    from pyjelly.integrations.generic.parse import parse_jelly_flat

    n = 0
    for path in sorted(glob.glob("/repo/tests/**/*.jelly", recursive=True)):
        data = open(path, "rb").read()
        try:
            theirs = _lenient_ns([terms.norm_item(terms.item_from_generic(x)) for x in parse_jelly_flat(io.BytesIO(data))])
        except Exception as e:  # noqa: BLE001
            theirs = "EXC"
        try:
            mine = R.decode(data)[0]
        except R.RefInvalid:
            mine = "EXC"
        assert (mine == "EXC") == (theirs == "EXC") and (mine == "EXC" or mine == theirs), f"reference != pyjelly on {path}"
        n += 1
    return n


def refenc_roundtrip(seed=0, rounds=300):
    from pyjelly.integrations.generic.parse import parse_jelly_flat

    rnd = random.Random(seed)
    iris = ["http://a/x", "http://a/y", "http://b#z", "urn:q", "", "http://a/", "http://c/d/e"]
    dts = ["http://dt/1", R.XSD_STRING, "http://dt/2", "http://dt/3"]

    def rterm(depth=0, graph=False):
        k = rnd.choice(["iri", "iri", "bnode", "lit", "lit", "triple"] if not graph else ["iri", "bnode", "default", "lit"])
        if k == "iri":
            return ("iri", rnd.choice(iris))
        if k == "bnode":
            return ("bnode", rnd.choice(["b1", "b2", ""]))
        if k == "default":
            return ("default",)
        if k == "lit":
            m = rnd.choice([0, 1, 2])
            return ("lit", rnd.choice(["", "x", "żółć"]), "en" if m == 1 else None, rnd.choice(dts) if m == 2 else None)
        if depth >= 2:
            return ("iri", rnd.choice(iris))
        return ("triple", rterm(depth + 1), rterm(depth + 1), rterm(depth + 1))

    for _ in range(rounds):
        phys = rnd.choice([1, 2, 3])
        ver = rnd.choice([1, 2])
        enc = R.RefEncoder(phys, names=rnd.choice([8, 9, 16]), prefixes=rnd.choice([0, 3, 4, 8]), datatypes=rnd.choice([3, 4]),
                           version=ver, choose=lambda tag, n: rnd.randrange(n) if rnd.random() < 0.5 else 0)
        want = []
        try:
          _build(rnd, enc, want, phys, ver, rterm, iris)
        except R.RefInvalid:
            continue
        cuts = {i for i in range(len(enc.rows)) if rnd.random() < 0.3}
        delim = rnd.random() < 0.7
        data = enc.to_bytes(delimited=delim, cuts=cuts if delim else None, empty_frames={1} if delim and rnd.random() < 0.3 else ())
        want = [terms.norm_item(w) for w in want]
        mine = R.decode(data)[0]
        assert mine == want, ("refenc->refdec", want, mine)
        theirs = _lenient_ns([terms.norm_item(terms.item_from_generic(x)) for x in parse_jelly_flat(io.BytesIO(data))])
        assert theirs == want, ("refenc->pyjelly", want, theirs, data.hex())
    return rounds


def _build(rnd, enc, want, phys, ver, rterm, iris):
        for _ in range(rnd.randrange(1, 6)):
            if ver == 2 and rnd.random() < 0.2:
                nm, iri = rnd.choice(["", "ex", "p"]), rnd.choice(iris)
                enc.namespace(nm, iri)
                want.append(("NS", nm, iri))
            if phys == 1:
                t = (rterm(), rterm(), rterm())
                enc.triple(*t)
                want.append(("T",) + t)
            elif phys == 2:
                t = (rterm(), rterm(), rterm(), rterm(graph=True))
                enc.quad(*t)
                want.append(("Q",) + t)
            else:
                g = rterm(graph=True)
                enc.graph_start(g)
                for _ in range(rnd.randrange(0, 3)):
                    t = (rterm(), rterm(), rterm())
                    enc.triple(*t)
                    want.append(("Q",) + t + (g,))
                enc.graph_end()
            if rnd.random() < 0.1:
                enc.repeat_options()


if __name__ == "__main__":
    print("rdflib fixtures:", fixtures_via_rdflib())
    print("jelly fixtures:", fixtures_jelly())
    print("refenc roundtrip:", refenc_roundtrip(int(sys.argv[1]) if len(sys.argv) > 1 else 0))
