"""Hand-written protobuf wire format for the Jelly schema (field numbers transcribed from the
Jelly 1.1 rdf.proto). Uses neither pyjelly nor rdf_pb2 nor google.protobuf."""
from __future__ import annotations


class WireError(Exception):
    pass


def enc_varint(n: int) -> bytes:
    if n < 0:
        n += 1 << 64
    out = bytearray()
    while True:
        b = n & 0x7F
        n >>= 7
        if n:
            out.append(b | 0x80)
        else:
            out.append(b)
            return bytes(out)


def dec_varint(buf: bytes, pos: int):
    shift = 0
    val = 0
    while True:
        if pos >= len(buf):
            raise WireError("truncated varint")
        b = buf[pos]
        pos += 1
        val |= (b & 0x7F) << shift
        if not b & 0x80:
            return val, pos
        shift += 7
        if shift > 63:
            raise WireError("varint too long")


def tag(field: int, wt: int) -> bytes:
    return enc_varint((field << 3) | wt)


def f_varint(field: int, v: int) -> bytes:
    return tag(field, 0) + enc_varint(v)


def f_bytes(field: int, b: bytes) -> bytes:
    return tag(field, 2) + enc_varint(len(b)) + b


def f_str(field: int, s: str) -> bytes:
    return f_bytes(field, s.encode("utf-8"))


def fields(buf: bytes):
    """Yield (field_number, wire_type, value) for a message body."""
    pos = 0
    out = []
    while pos < len(buf):
        key, pos = dec_varint(buf, pos)
        fno, wt = key >> 3, key & 7
        if fno == 0:
            raise WireError("field number 0")
        if wt == 0:
            v, pos = dec_varint(buf, pos)
        elif wt == 2:
            ln, pos = dec_varint(buf, pos)
            if pos + ln > len(buf):
                raise WireError("truncated length-delimited field")
            v = buf[pos:pos + ln]
            pos += ln
        elif wt == 1:
            if pos + 8 > len(buf):
                raise WireError("truncated fixed64")
            v = buf[pos:pos + 8]
            pos += 8
        elif wt == 5:
            if pos + 4 > len(buf):
                raise WireError("truncated fixed32")
            v = buf[pos:pos + 4]
            pos += 4
        else:
            raise WireError(f"unsupported wire type {wt}")
        out.append((fno, wt, v))
    return out


def split_delimited(data: bytes):
    """Split a length-delimited stream into frame bodies."""
    pos = 0
    frames = []
    while pos < len(data):
        ln, pos = dec_varint(data, pos)
        if pos + ln > len(data):
            raise WireError("truncated frame")
        frames.append(data[pos:pos + ln])
        pos += ln
    return frames


# ---- schema (field numbers) ---------------------------------------------------------------
ROW_KINDS = {1: "options", 2: "triple", 3: "quad", 4: "graph_start", 5: "graph_end", 6: "namespace",
             9: "name", 10: "prefix", 11: "datatype"}
ROW_FIELD = {v: k for k, v in ROW_KINDS.items()}
OPT_FIELDS = {1: "stream_name", 2: "physical_type", 3: "generalized_statements", 4: "rdf_star",
              9: "max_name_table_size", 10: "max_prefix_table_size", 11: "max_datatype_table_size",
              14: "logical_type", 15: "version"}
OPT_NUM = {v: k for k, v in OPT_FIELDS.items()}
SLOTS = ("s", "p", "o", "g")
# term field numbers inside RdfTriple / RdfQuad: base = 4*slot ; +1 iri, +2 bnode, +3 literal, +4 triple_term
# graph slot in quad: 13 iri, 14 bnode, 15 default graph, 16 literal
# RdfGraphStart: 1 iri, 2 bnode, 3 default graph, 4 literal


def dec_iri(b: bytes):
    d = {"prefix_id": 0, "name_id": 0}
    for fno, wt, v in fields(b):
        if fno == 1 and wt == 0:
            d["prefix_id"] = v
        elif fno == 2 and wt == 0:
            d["name_id"] = v
    return ("iri", d["prefix_id"], d["name_id"])


def dec_literal(b: bytes):
    lex, lang, dt = "", None, None
    for fno, wt, v in fields(b):
        if fno == 1 and wt == 2:
            lex = v.decode("utf-8")
        elif fno == 2 and wt == 2:
            lang, dt = v.decode("utf-8"), None
        elif fno == 3 and wt == 0:
            dt, lang = v, None
    return ("lit", lex, lang, dt)


def dec_statement(b: bytes, graph_base: int | None):
    """-> dict slot -> raw term (or absent). graph_base: 12 for quads, None for triples."""
    out = {}
    for fno, wt, v in fields(b):
        if 1 <= fno <= 12:
            slot = SLOTS[(fno - 1) // 4]
            k = (fno - 1) % 4
            if k == 0 and wt == 2:
                out[slot] = dec_iri(v)
            elif k == 1 and wt == 2:
                out[slot] = ("bnode", v.decode("utf-8"))
            elif k == 2 and wt == 2:
                out[slot] = dec_literal(v)
            elif k == 3 and wt == 2:
                out[slot] = ("triple", dec_statement(v, None))
        elif graph_base is not None and graph_base < fno <= graph_base + 4:
            out["g"] = dec_graph_term(fno - graph_base, wt, v)
    return out


def dec_graph_term(k: int, wt: int, v):
    if k == 1:
        return dec_iri(v)
    if k == 2:
        return ("bnode", v.decode("utf-8"))
    if k == 3:
        return ("default",)
    return dec_literal(v)


def dec_row(b: bytes):
    fs = fields(b)
    kind = None
    body = b""
    for fno, wt, v in fs:
        if fno in ROW_KINDS and wt == 2:
            kind, body = ROW_KINDS[fno], v  # last one wins (oneof)
    if kind is None:
        return ("empty",)
    if kind == "options":
        d = {"stream_name": "", "physical_type": 0, "generalized_statements": 0, "rdf_star": 0,
             "max_name_table_size": 0, "max_prefix_table_size": 0, "max_datatype_table_size": 0,
             "logical_type": 0, "version": 0}
        for fno, wt, v in fields(body):
            if fno in OPT_FIELDS:
                d[OPT_FIELDS[fno]] = v.decode("utf-8") if fno == 1 else v
        return ("options", d)
    if kind in ("name", "prefix", "datatype"):
        i, val = 0, ""
        for fno, wt, v in fields(body):
            if fno == 1 and wt == 0:
                i = v
            elif fno == 2 and wt == 2:
                val = v.decode("utf-8")
        return (kind, i, val)
    if kind == "triple":
        return ("triple", dec_statement(body, None))
    if kind == "quad":
        return ("quad", dec_statement(body, 12))
    if kind == "graph_start":
        g = None
        for fno, wt, v in fields(body):
            if 1 <= fno <= 4:
                g = dec_graph_term(fno, wt, v)
        return ("graph_start", g)
    if kind == "graph_end":
        return ("graph_end",)
    if kind == "namespace":
        name, iri = "", ("iri", 0, 0)
        has = False
        for fno, wt, v in fields(body):
            if fno == 1 and wt == 2:
                name = v.decode("utf-8")
            elif fno == 2 and wt == 2:
                iri = dec_iri(v)
                has = True
        return ("namespace", name, iri if has else None)
    raise WireError("unreachable")


def dec_frame(b: bytes):
    rows, meta = [], {}
    for fno, wt, v in fields(b):
        if fno == 1 and wt == 2:
            rows.append(dec_row(v))
        elif fno == 15 and wt == 2:
            k, val = "", b""
            for f2, w2, v2 in fields(v):
                if f2 == 1:
                    k = v2.decode("utf-8")
                elif f2 == 2:
                    val = v2
            meta[k] = val
    return rows, meta


# ---- encoding -----------------------------------------------------------------------------
def enc_iri(prefix_id: int, name_id: int) -> bytes:
    b = b""
    if prefix_id:
        b += f_varint(1, prefix_id)
    if name_id:
        b += f_varint(2, name_id)
    return b


def enc_literal(lex: str, lang, dt) -> bytes:
    b = f_str(1, lex) if lex else b""
    if lang is not None:
        b += f_str(2, lang)
    elif dt is not None:
        b += f_varint(3, dt)
    return b


def enc_term(slot_index: int, raw) -> bytes:
    """raw wire-level term -> field bytes inside a triple/quad (slot_index 0..3)."""
    base = 4 * slot_index
    k = raw[0]
    if slot_index == 3:
        if k == "iri":
            return f_bytes(13, enc_iri(raw[1], raw[2]))
        if k == "bnode":
            return f_str(14, raw[1])
        if k == "default":
            return f_bytes(15, b"")
        return f_bytes(16, enc_literal(raw[1], raw[2], raw[3]))
    if k == "iri":
        return f_bytes(base + 1, enc_iri(raw[1], raw[2]))
    if k == "bnode":
        return f_str(base + 2, raw[1])
    if k == "lit":
        return f_bytes(base + 3, enc_literal(raw[1], raw[2], raw[3]))
    if k == "triple":
        return f_bytes(base + 4, b"".join(enc_term(i, t) for i, t in enumerate(raw[1]) if t is not None))
    raise WireError(f"cannot encode {raw!r}")


def enc_row(row) -> bytes:
    kind = row[0]
    if kind == "options":
        d = row[1]
        b = b""
        for name in ("stream_name", "physical_type", "generalized_statements", "rdf_star",
                     "max_name_table_size", "max_prefix_table_size", "max_datatype_table_size",
                     "logical_type", "version"):
            v = d.get(name, 0)
            if name == "stream_name":
                if v:
                    b += f_str(1, v)
            elif v:
                b += f_varint(OPT_NUM[name], int(v))
        return f_bytes(1, b)
    if kind in ("name", "prefix", "datatype"):
        b = (f_varint(1, row[1]) if row[1] else b"") + (f_str(2, row[2]) if row[2] else b"")
        return f_bytes(ROW_FIELD[kind], b)
    if kind == "triple":
        return f_bytes(2, b"".join(enc_term(i, t) for i, t in enumerate(row[1]) if t is not None))
    if kind == "quad":
        return f_bytes(3, b"".join(enc_term(i, t) for i, t in enumerate(row[1]) if t is not None))
    if kind == "graph_start":
        g = row[1]
        if g[0] == "iri":
            b = f_bytes(1, enc_iri(g[1], g[2]))
        elif g[0] == "bnode":
            b = f_str(2, g[1])
        elif g[0] == "default":
            b = f_bytes(3, b"")
        else:
            b = f_bytes(4, enc_literal(g[1], g[2], g[3]))
        return f_bytes(4, b)
    if kind == "graph_end":
        return f_bytes(5, b"")
    if kind == "namespace":
        return f_bytes(6, (f_str(1, row[1]) if row[1] else b"") + f_bytes(2, enc_iri(row[2][1], row[2][2])))
    raise WireError(f"cannot encode row {row!r}")


def enc_frame(rows, metadata=None) -> bytes:
    b = b"".join(f_bytes(1, enc_row(r)) for r in rows)
    for k, v in (metadata or {}).items():
        b += f_bytes(15, f_str(1, k) + f_bytes(2, v))
    return b


def delimit(frames) -> bytes:
    return b"".join(enc_varint(len(f)) + f for f in frames)
