"""Conversions between neutral terms (vpkg.ref.jelly), pyjelly's generic API and rdflib."""
from __future__ import annotations

from vpkg.ref.jelly import norm_item, norm_term  # noqa: F401


def to_generic(t):
    from pyjelly.integrations.generic import generic_sink as gs

    k = t[0]
    if k == "iri":
        return gs.IRI(t[1])
    if k == "bnode":
        return gs.BlankNode(t[1])
    if k == "lit":
        return gs.Literal(t[1], t[2], t[3])
    if k == "default":
        return gs.DefaultGraph
    if k == "triple":
        return gs.Triple(*(to_generic(x) for x in t[1:]))
    raise TypeError(t)


def from_generic(x):
    from pyjelly.integrations.generic import generic_sink as gs

    if isinstance(x, gs.IRI):
        return ("iri", x._iri)
    if isinstance(x, gs.BlankNode):
        return ("bnode", x._identifier)
    if isinstance(x, gs.Literal):
        return ("lit", x._lex, x._langtag, x._datatype)
    if x is gs.DefaultGraph:
        return ("default",)
    if isinstance(x, gs.Triple):
        return ("triple",) + tuple(from_generic(y) for y in x)
    return ("BAD", repr(x))


def item_to_generic(it):
    from pyjelly.integrations.generic import generic_sink as gs

    if it[0] == "T":
        return gs.Triple(*(to_generic(x) for x in it[1:]))
    if it[0] == "Q":
        return gs.Quad(*(to_generic(x) for x in it[1:]))
    raise TypeError(it)


def item_from_generic(x):
    from pyjelly.integrations.generic import generic_sink as gs

    if isinstance(x, gs.Prefix):
        iri = x.iri
        inner = iri._iri if isinstance(iri, gs.IRI) else None
        return ("NS", x.prefix, inner if isinstance(inner, str) else ("BAD", repr(iri)))
    if isinstance(x, gs.Quad):
        return ("Q",) + tuple(from_generic(y) for y in x)
    if isinstance(x, gs.Triple):
        return ("T",) + tuple(from_generic(y) for y in x)
    return ("BAD", repr(x))


def to_rdflib(t):
    import rdflib
    from rdflib.graph import DATASET_DEFAULT_GRAPH_ID

    k = t[0]
    if k == "iri":
        return rdflib.URIRef(t[1])
    if k == "bnode":
        return rdflib.BNode(t[1])
    if k == "lit":
        return rdflib.Literal(t[1], lang=t[2], datatype=rdflib.URIRef(t[3]) if t[3] else None)
    if k == "default":
        # an EQUAL but not identical URIRef (what a caller who rebuilds quads hands over)
        return rdflib.URIRef(str(DATASET_DEFAULT_GRAPH_ID))
    raise TypeError(t)


def from_rdflib(x):
    import rdflib
    from rdflib.graph import DATASET_DEFAULT_GRAPH_ID, Graph

    if isinstance(x, Graph):
        x = x.identifier
    if x is None:
        return ("BAD", "None")
    if isinstance(x, rdflib.URIRef):
        if x == DATASET_DEFAULT_GRAPH_ID:
            return ("default",)
        return ("iri", str(x))
    if isinstance(x, rdflib.BNode):
        return ("bnode", str(x))
    if isinstance(x, rdflib.Literal):
        return ("lit", str(x), x.language, str(x.datatype) if x.datatype is not None else None)
    return ("BAD", repr(x))


def item_from_rdflib(x):
    from pyjelly.integrations.rdflib.parse import Prefix

    if isinstance(x, Prefix):
        return ("NS", x[0], str(x[1]))
    if len(x) == 4:
        return ("Q",) + tuple(from_rdflib(y) for y in x)
    return ("T",) + tuple(from_rdflib(y) for y in x)
