"""Worker process: runs work units (one CrossHair condition each) received as JSON lines.

Protocol: master writes one JSON object per line on stdin, worker answers with one JSON
object per line on the *result fd* (a dup of the original stdout; sys.stdout itself is
redirected to stderr so that prints from harness / analysed code cannot corrupt it).

Unit modes
  decide  - symbolic exploration of the harness (the deciding step)
  sample  - same harness, inputs realised at entry, <= K iterations -> concrete inputs
  native  - run harness natively (no CrossHair) on given concrete inputs; profile /repo code
"""
from __future__ import annotations

import collections
import importlib
import json
import os
import sys
import time
import traceback

REPO = os.environ.get("VP_REPO", "/repo")


def _guard_imports() -> None:
    import pyjelly
    import pyjelly.parse.decode
    import pyjelly.parse.ioutils
    import pyjelly.parse.lookup
    import pyjelly.serialize.encode
    import pyjelly.serialize.flows
    import pyjelly.serialize.lookup
    import pyjelly.serialize.streams

    for name, mod in list(sys.modules.items()):
        if name == "pyjelly" or name.startswith("pyjelly."):
            f = getattr(mod, "__file__", None)
            if f is not None and not os.path.realpath(f).startswith(os.path.realpath(REPO) + "/"):
                raise SystemExit(f"IMPORT-GUARD: {name} loaded from {f}, not {REPO}")
            if f is not None and not f.endswith(".py"):
                raise SystemExit(f"IMPORT-GUARD: {name} is not a source module: {f}")


class _SolverStats:
    queries = 0
    seconds = 0.0


def _wrap_solver() -> None:
    import z3

    orig = z3.Solver.check

    def check(self, *a):  # type: ignore[no-untyped-def]
        t = time.perf_counter()
        try:
            return orig(self, *a)
        finally:
            _SolverStats.queries += 1
            _SolverStats.seconds += time.perf_counter() - t

    z3.Solver.check = check  # type: ignore[method-assign]


_CH = {}


def _crosshair():
    if not _CH:
        import crosshair.core_and_libs  # noqa: F401  (loads opcode patches)
        from crosshair.core import analyze_function, deep_realize, run_checkables
        from crosshair.options import DEFAULT_OPTIONS, AnalysisOptionSet
        from crosshair.tracers import NoTracing, ResumedTracing

        _wrap_solver()
        # Never replace a call by an uninterpreted "proxy return" (CrossHair does this probabilistically
        # for functions that carry contracts, e.g. its own model of hash()): always execute the real callee.
        import crosshair.core as _core

        _core.consider_shortcircuit = lambda *a, **k: None
        _CH.update(
            analyze_function=analyze_function,
            run_checkables=run_checkables,
            deep_realize=deep_realize,
            DEFAULT_OPTIONS=DEFAULT_OPTIONS,
            AnalysisOptionSet=AnalysisOptionSet,
            NoTracing=NoTracing,
            ResumedTracing=ResumedTracing,
        )
    return _CH


def _load(unit):
    mod = importlib.import_module(unit["module"])
    mod.P = dict(unit.get("params") or {})
    if hasattr(mod, "configure"):
        mod.configure(mod.P)
    mod.CEX = None
    mod.SAMPLES = []
    mod.OPEN = None
    mod.OPEN_LIST = []
    if hasattr(mod, "probe"):
        try:
            mod.probe()
        except (AttributeError, ImportError, TypeError) as e:
            raise SkipUnit(f"internal attribute this harness relies on is gone (behaviour-preserving refactor?): {type(e).__name__}: {e}") from None
    return mod, getattr(mod, unit["fn"])


class SkipUnit(Exception):
    pass


def run_decide(unit):
    ch = _crosshair()
    mod, fn = _load(unit)
    stats = collections.Counter()
    kw = dict(
        per_condition_timeout=float(unit.get("timeout", 60)),
        report_all=True,
        max_uninteresting_iterations=10**9,
        stats=stats,
    )
    if unit.get("path_timeout"):
        kw["per_path_timeout"] = float(unit["path_timeout"])
    if unit.get("max_iterations"):
        kw["max_iterations"] = int(unit["max_iterations"])
    opts = ch["AnalysisOptionSet"](**kw)
    q0, s0 = _SolverStats.queries, _SolverStats.seconds
    t0, c0 = time.time(), time.process_time()
    msgs = []
    checkables = ch["analyze_function"](fn, opts)
    if not checkables:
        return {"status": "ERROR", "message": "no conditions found for " + unit["fn"]}
    for c in checkables:
        msgs += ch["run_checkables"]([c])
    states = [m.state.name for m in msgs]
    abandoned = (getattr(mod, "OPEN_LIST", None) or []) + ([mod.OPEN] if getattr(mod, "OPEN", None) else [])
    if not msgs:
        status = "UNKNOWN"
    elif any(s in ("POST_FAIL", "EXEC_ERR", "POST_ERR", "PRE_INVALID") for s in states):
        status = "REFUTED"
    elif any(s == "PRE_UNSAT" for s in states):
        status = "PRE_UNSAT"
    elif any(s in ("SYNTAX_ERR", "IMPORT_ERR") for s in states):
        status = "ERROR"
    elif all(s == "CONFIRMED" for s in states):
        status = "CONFIRMED" if not abandoned else "UNKNOWN"   # a path abandoned by the watchdog was not decided
    else:
        status = "UNKNOWN"
    try:
        import signal
        signal.alarm(0)
    except Exception:  # noqa: BLE001
        pass
    return {
        "status": status,
        "states": states,
        "message": "; ".join(m.message for m in msgs)[:1500],
        "trace": next((m.traceback for m in msgs if m.traceback), "")[-3000:],
        "paths": int(stats.get("num_paths", 0)),
        "queries": _SolverStats.queries - q0,
        "solver_s": round(_SolverStats.seconds - s0, 3),
        "cpu_s": round(time.process_time() - c0, 2),
        "wall_s": round(time.time() - t0, 2),
        "cex": getattr(mod, "CEX", None),
        "abandoned": (getattr(mod, "OPEN_LIST", None) or []) + ([mod.OPEN] if getattr(mod, "OPEN", None) else []),
    }


def run_sample(unit):
    """Same harness, arguments realised at entry: each iteration = one concrete input."""
    ch = _crosshair()
    mod, fn = _load(unit)
    import functools
    import inspect

    deep_realize, NoTracing = ch["deep_realize"], ch["NoTracing"]
    sig = inspect.signature(fn)
    recorded = []

    @functools.wraps(fn)
    def sampler(*a, **k):
        with NoTracing():
            a2 = deep_realize(a)
            k2 = deep_realize(k)
        try:
            r = fn(*a2, **k2)
            with NoTracing():
                r = bool(deep_realize(r))
        except Exception as e:  # noqa: BLE001
            r = "EXC:" + type(e).__name__
        with NoTracing():
            recorded.append((list(a2), r))
        return True

    sampler.__doc__ = fn.__doc__.replace("post: _", "post: True")
    sampler.__signature__ = sig
    opts = ch["AnalysisOptionSet"](
        per_condition_timeout=float(unit.get("timeout", 30)),
        report_all=True,
        max_uninteresting_iterations=10**9,
        max_iterations=int(unit.get("k", 20)),
    )
    for c in ch["analyze_function"](sampler, opts):
        ch["run_checkables"]([c])
    names = list(sig.parameters)
    out = [{"args": dict(zip(names, a)), "result": r} for a, r in recorded]
    return {"status": "SAMPLED", "samples": out}


class _Profile:
    def __init__(self):
        self.seen = {}

    def __call__(self, frame, event, arg):
        if event == "call":
            co = frame.f_code
            f = co.co_filename
            if f.startswith(REPO + "/pyjelly/"):
                self.seen[(f[len(REPO) + 1:], co.co_firstlineno, co.co_qualname)] = 1


def run_native(unit):
    """Native (no CrossHair) executions of the harness on concrete inputs."""
    mod, fn = _load(unit)
    prof = _Profile()
    results = []
    import resource
    rss0 = resource.getrusage(resource.RUSAGE_SELF).ru_maxrss
    for inp in unit["inputs"]:
        sys.setprofile(prof)
        try:
            r = bool(fn(**inp))
        except Exception as e:  # noqa: BLE001
            r = "EXC:" + type(e).__name__
        finally:
            sys.setprofile(None)
        results.append(r)
    funcs = sorted(f"{f}:{ln}:{q}" for (f, ln, q) in prof.seen)
    rss1 = resource.getrusage(resource.RUSAGE_SELF).ru_maxrss
    return {"status": "NATIVE", "results": results, "functions": funcs, "maxrss_growth_mb": round((rss1 - rss0) / 1024.0, 1),
            "cex": getattr(mod, "CEX", None)}


def main() -> None:
    out = os.fdopen(os.dup(1), "w")
    os.dup2(2, 1)
    sys.stdout = sys.stderr
    sys.setrecursionlimit(10000)
    try:
        _guard_imports()
    except SystemExit as e:
        out.write(json.dumps({"fatal": str(e)}) + "\n")
        out.flush()
        return
    out.write(json.dumps({"ready": True}) + "\n")
    out.flush()
    for line in sys.stdin:
        line = line.strip()
        if not line:
            continue
        unit = json.loads(line)
        try:
            mode = unit.get("mode", "decide")
            if mode == "decide":
                res = run_decide(unit)
            elif mode == "sample":
                res = run_sample(unit)
            else:
                res = run_native(unit)
        except SkipUnit as e:
            res = {"status": "SKIPPED", "message": str(e)}
        except BaseException as e:  # noqa: BLE001
            res = {"status": "ERROR", "message": f"{type(e).__name__}: {e}",
                   "trace": traceback.format_exc()[-3000:]}
        res["id"] = unit["id"]
        out.write(json.dumps(res, default=repr) + "\n")
        out.flush()


if __name__ == "__main__":
    main()
